#!/bin/bash
# usage: tryw.sh <check-property> <patch.diff> [budget_s] [workers]
# applies a seeded change in a scratch worktree of /repo HEAD and runs the property's check against it
# (VERIF_REPO). /repo is not touched. Leaves the replay files in /tmp/verif-tryw-out-<tag>/replays for inspection
# together with the worktree (/tmp/verif-tryw-wt-<tag>, TRYW_TAG, default a) until the next call.
P=$1; PATCH=$2; B=${3:-40}; NW=${4:-16}
T=${TRYW_TAG:-a}; W=/tmp/verif-tryw-wt-$T; O=/tmp/verif-tryw-out-$T
git -C /repo worktree remove --force $W 2>/dev/null; rm -rf $W $O
git -C /repo worktree add -q --detach $W HEAD || exit 2
git -C $W apply "$PATCH" || { echo "patch does not apply"; exit 2; }
mkdir -p $O
out=$(cd /verif && VERIF_REPO=$W VERIF_OUTDIR=$O timeout 1500 ./verif check $P --budget $B --workers $NW 2>&1); rc=$?
echo "$out" | grep -v "^\s" | grep -v "^KNOWN" | cut -c1-500 | tail -4
echo "EXIT $rc"
