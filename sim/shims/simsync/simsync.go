// Package simsync holds the cooperative scheduler of the simulator. The instrumenter rewrites
// mutex operations in the engine into calls of this package and inserts Wake calls after blocking
// selects; the harness's seams (store, application, log, transport wrappers) call Yield.
//
// With no scheduler installed every call passes straight through to the real mutex, so the
// instrumented engine behaves as shipped. With a scheduler installed (interleaving mode), a
// goroutine that reaches one of these points becomes a controlled task: it parks (blocks durably
// on its own channel, which testing/synctest can see through) and continues only when the
// simulator's driver resumes it. Exactly one controlled task runs at a time, so which task proceeds
// at every point is the driver's (seeded) decision and a run is replayable.
//
// Lock is "yield, then loop { TryLock or park as blocked }" on the REAL mutex: the mutex still
// provides the exclusion; the instrumentation only turns a non-durable block into a durable park,
// which also makes it safe to park a task that holds a lock. If a change to the engine removes or
// narrows a lock, the contenders simply are not blocked any more and run into the unprotected
// region under some schedule.
package simsync

import (
	"runtime"
	"sort"
	"strings"
	"sync"
	"sync/atomic"
	"time"
)

// ---- timer skew -----------------------------------------------------------------------------
//
// The engine arms its timers with whole-second durations from instants that are often exact sums of
// earlier timer instants. Two timers of one session can therefore fall due at exactly the same
// simulated nanosecond, both events are ready for session.run's select at once, and Go picks at
// random — the engine itself does not order them either. The instrumenter wraps the duration argument
// of EventTimer's Reset and of every time.AfterFunc in the engine with Skew, which (only while a
// simulation run has switched it on) adds a per-call pseudo-random offset below 100 microseconds,
// derived from a counter that the harness resets at the start of every run. Exact ties disappear;
// nothing else about the timers changes.

var (
	skewOn  atomic.Bool
	skewCtr atomic.Uint64
)

// SkewReset switches the skew on/off and restarts its sequence (called at the start of every run).
func SkewReset(on bool) {
	skewOn.Store(on)
	skewCtr.Store(0)
}

func Skew(d time.Duration) time.Duration {
	if !skewOn.Load() || d < 0 {
		return d
	}
	n := skewCtr.Add(1)
	z := n*0x9E3779B97F4A7C15 + 0x632BE59BD9B4E019
	z ^= z >> 31
	z *= 0xBF58476D1CE4E5B9
	z ^= z >> 29
	return d + time.Duration(1+z%99991)
}

type Task struct {
	Name    string
	Site    string // where it is parked
	Kind    string // "yield", "lock", "blocked", "unlock", "wake"
	resume  chan struct{}
	blocked any  // mutex it failed to acquire; not eligible until that mutex is released
	parked  bool
	Steps   int
	drainSpins int
}

type Scheduler struct {
	mu      sync.Mutex
	tasks   map[uint64]*Task
	byName  map[string]*Task
	order   []*Task
	drain   bool
	parkSig chan struct{}
	anon    int
	// AutoSites: a goroutine that calls Wake with one of these sites becomes a task with the given
	// name prefix (e.g. "session.go:run" -> "session").
	AutoSites map[string]string
	autoCount map[string]int
	Anon      int // goroutines that became tasks without a registered name (determinism risk)
	Parks     int
	// Held tracks which task holds which instrumented mutex (diagnostics, deadlock reports).
	Held map[any]string
	// CodecLocks makes the locks of field_map.go scheduling points too.
	CodecLocks bool
	// writers counts, per RWMutex, the tasks waiting in Lock: like sync.RWMutex, a waiting writer keeps
	// new readers out (so a read lock taken twice by one task deadlocks against it).
	writers map[*sync.RWMutex]int
}

var cur atomic.Pointer[Scheduler]

func Install(s *Scheduler) { cur.Store(s) }
func current() *Scheduler  { return cur.Load() }

// forSite returns the installed scheduler unless the call site is one of the codec's per-message locks
// (field_map.go) and the scheduler does not ask for those: they are hot, and only a workload that shares
// one message between tasks (CodecLocks) needs them as scheduling points.
func forSite(site string) *Scheduler {
	s := cur.Load()
	if s != nil && !s.CodecLocks && strings.HasPrefix(site, "field_map.go") {
		return nil
	}
	return s
}

func NewScheduler() *Scheduler {
	return &Scheduler{tasks: map[uint64]*Task{}, byName: map[string]*Task{}, parkSig: make(chan struct{}, 1),
		AutoSites: map[string]string{}, autoCount: map[string]int{}, Held: map[any]string{}, writers: map[*sync.RWMutex]int{}}
}

func goid() uint64 {
	var buf [64]byte
	n := runtime.Stack(buf[:], false)
	// "goroutine 123 ["
	var id uint64
	for _, c := range buf[10:n] {
		if c < '0' || c > '9' {
			break
		}
		id = id*10 + uint64(c-'0')
	}
	return id
}

// Register makes the calling goroutine a controlled task with the given (unique) name.
func Register(name string) {
	s := current()
	if s == nil {
		return
	}
	s.mu.Lock()
	t := &Task{Name: name, resume: make(chan struct{})}
	s.tasks[goid()] = t
	s.byName[name] = t
	s.order = append(s.order, t)
	s.mu.Unlock()
}

// Unregister removes the calling goroutine from the scheduler (task finished).
func Unregister() {
	s := current()
	if s == nil {
		return
	}
	s.mu.Lock()
	id := goid()
	if t, ok := s.tasks[id]; ok {
		delete(s.tasks, id)
		delete(s.byName, t.Name)
		for i, o := range s.order {
			if o == t {
				s.order = append(s.order[:i], s.order[i+1:]...)
				break
			}
		}
	}
	s.mu.Unlock()
}

func (s *Scheduler) me(auto string) *Task {
	id := goid()
	s.mu.Lock()
	defer s.mu.Unlock()
	t := s.tasks[id]
	if t == nil && auto != "" {
		s.autoCount[auto]++
		name := auto
		if s.autoCount[auto] > 1 {
			name = auto + "#" + itoa(s.autoCount[auto])
		}
		t = &Task{Name: name, resume: make(chan struct{})}
		s.tasks[id] = t
		s.byName[name] = t
		s.order = append(s.order, t)
	}
	return t
}

func itoa(n int) string {
	if n == 0 {
		return "0"
	}
	var b [20]byte
	i := len(b)
	for n > 0 {
		i--
		b[i] = byte('0' + n%10)
		n /= 10
	}
	return string(b[i:])
}

func (s *Scheduler) park(t *Task, site, kind string, blocked any) {
	s.mu.Lock()
	if s.drain {
		s.mu.Unlock()
		if blocked != nil {
			// teardown: whoever holds the mutex is draining too and lets go soon - unless the tasks
			// deadlocked (reported by the driver before it drained): such a task ends here, its deferred
			// unlocks run
			t.drainSpins++
			if t.drainSpins > 200000 {
				runtime.Goexit()
			}
			runtime.Gosched()
		}
		return
	}
	t.Site, t.Kind, t.blocked, t.parked = site, kind, blocked, true
	t.Steps++
	s.Parks++
	s.mu.Unlock()
	select {
	case s.parkSig <- struct{}{}:
	default:
	}
	<-t.resume
}

// ---- calls emitted by the instrumenter ----

type mutexLike interface {
	Lock()
	Unlock()
	TryLock() bool
}

func Lock(m mutexLike, site string) {
	s := forSite(site)
	if s == nil {
		lockPlain(m.TryLock)
		return
	}
	t := s.me("")
	if t == nil {
		// Uncontrolled goroutine in interleaving mode: it must not block non-durably on a mutex a
		// parked task may hold, so it becomes an anonymous task.
		s.mu.Lock()
		s.Anon++
		s.mu.Unlock()
		t = s.me("anon")
	}
	s.park(t, site, "lock", nil)
	rw, _ := m.(*sync.RWMutex)
	if rw != nil {
		s.mu.Lock()
		s.writers[rw]++
		s.mu.Unlock()
	}
	for !m.TryLock() {
		s.park(t, site, "blocked", m)
	}
	s.mu.Lock()
	if rw != nil {
		s.writers[rw]--
	}
	s.Held[m] = t.Name
	s.mu.Unlock()
}

func Unlock(m mutexLike, site string) {
	s := forSite(site)
	if s == nil {
		m.Unlock()
		return
	}
	m.Unlock()
	s.released(m)
	if t := s.me(""); t != nil {
		s.park(t, site, "unlock", nil)
	}
}

func RLock(m *sync.RWMutex, site string) {
	s := forSite(site)
	if s == nil {
		lockPlain(m.TryRLock)
		return
	}
	t := s.me("")
	if t == nil {
		s.mu.Lock()
		s.Anon++
		s.mu.Unlock()
		t = s.me("anon")
	}
	s.park(t, site, "lock", nil)
	for s.writerWaiting(m) || !m.TryRLock() {
		s.park(t, site, "blocked", m)
	}
}

func (s *Scheduler) writerWaiting(m *sync.RWMutex) bool {
	s.mu.Lock()
	defer s.mu.Unlock()
	return s.writers[m] > 0
}

func RUnlock(m *sync.RWMutex, site string) {
	s := forSite(site)
	if s == nil {
		m.RUnlock()
		return
	}
	m.RUnlock()
	s.released(m)
	if t := s.me(""); t != nil {
		s.park(t, site, "unlock", nil)
	}
}

func (s *Scheduler) released(m any) {
	s.mu.Lock()
	delete(s.Held, m)
	for _, t := range s.tasks {
		if t.blocked == m {
			t.blocked = nil
		}
	}
	s.mu.Unlock()
}

// Wake is inserted at the top of every comm clause of a blocking select.
func Wake(site string) {
	s := current()
	if s == nil {
		return
	}
	s.mu.Lock()
	auto := s.AutoSites[site]
	s.mu.Unlock()
	t := s.me(auto)
	if t == nil {
		return
	}
	s.park(t, site, "wake", nil)
}

// Yield is called by the harness's seams on whatever goroutine reaches them.
func Yield(site string) {
	s := current()
	if s == nil {
		return
	}
	t := s.me("")
	if t == nil {
		return
	}
	s.park(t, site, "yield", nil)
}

// IsTask reports whether the calling goroutine is a controlled task.
func IsTask() bool {
	s := current()
	if s == nil {
		return false
	}
	return s.me("") != nil
}

// TaskName returns the calling goroutine's task name, or "".
func TaskName() string {
	s := current()
	if s == nil {
		return ""
	}
	if t := s.me(""); t != nil {
		return t.Name
	}
	return ""
}

// ---- driver side (called at quiescence only) ----

// Parked returns the parked tasks eligible to run, sorted by name.
func (s *Scheduler) Parked() []*Task {
	s.mu.Lock()
	defer s.mu.Unlock()
	var r []*Task
	for _, t := range s.tasks {
		if t.parked && t.blocked == nil {
			r = append(r, t)
		}
	}
	sort.Slice(r, func(i, j int) bool { return r[i].Name < r[j].Name })
	return r
}

// AllParked returns every parked task including blocked ones (deadlock diagnostics).
func (s *Scheduler) AllParked() []*Task {
	s.mu.Lock()
	defer s.mu.Unlock()
	var r []*Task
	for _, t := range s.tasks {
		if t.parked {
			r = append(r, t)
		}
	}
	sort.Slice(r, func(i, j int) bool { return r[i].Name < r[j].Name })
	return r
}

func (s *Scheduler) IsParked(name string) bool {
	s.mu.Lock()
	defer s.mu.Unlock()
	t := s.byName[name]
	return t != nil && t.parked
}

// Resume lets t run until its next park or natural block. The caller must then wait for
// quiescence before touching the scheduler again.
func (s *Scheduler) Resume(t *Task) {
	s.mu.Lock()
	t.parked = false
	s.mu.Unlock()
	t.resume <- struct{}{}
}

// ParkSignal is signalled (capacity 1) whenever a task parks.
func (s *Scheduler) ParkSignal() <-chan struct{} { return s.parkSig }

// Drain switches to pass-through: parks return immediately, and every parked task is released.
// Used for teardown.
func (s *Scheduler) Drain() {
	s.mu.Lock()
	s.drain = true
	var ts []*Task
	for _, t := range s.tasks {
		if t.parked {
			t.parked = false
			ts = append(ts, t)
		}
	}
	s.mu.Unlock()
	sort.Slice(ts, func(i, j int) bool { return ts[i].Name < ts[j].Name })
	for _, t := range ts {
		t.resume <- struct{}{}
	}
}


// ---- select gate -------------------------------------------------------------------------------------------
//
// Go chooses at random among the ready cases of a select. For the selects the instrumenter gates (session.go:run)
// the simulator can make that choice: with an order set, the cases are polled one by one in that order before the
// select itself runs, so when several sources are ready the first in the order wins. With no order set (default)
// nothing is polled and the select runs as written.

var selectOrder atomic.Pointer[[]int]

// SetSelectOrder sets (or, with nil, clears) the polling order: a list of case indices of the gated select.
func SetSelectOrder(order []int) {
	if order == nil {
		selectOrder.Store(nil)
		return
	}
	o := append([]int(nil), order...)
	selectOrder.Store(&o)
}

// SelectPick answers which case to poll k-th, or -1 for none.
func SelectPick(site string, k, n int) int {
	o := selectOrder.Load()
	if o == nil || k >= len(*o) {
		return -1
	}
	if i := (*o)[k]; i >= 0 && i < n {
		return i
	}
	return -1
}


// lockPlain takes a lock when no scheduler is in charge. A goroutine waiting on a sync.Mutex is not "durably
// blocked" for testing/synctest, so if the holder is asleep in SIMULATED time (a slow application callback inside
// the engine's critical section) the clock could never advance and the run would hang in real time. The harness
// announces such sleeps (SleepHoldingLocks); only while one is in progress does a waiter wait in simulated time
// (which lets the sleep end, and happens at instants that depend on simulated time alone). Otherwise it waits
// like a mutex would - by yielding, in real time, with no effect on the simulated clock: a first version that fell
// back to a simulated sleep after a number of yields made traces depend on machine load (20 of 3200 same-seed
// runs diverged with 32 processes on 16 cores).
func lockPlain(try func() bool) {
	for !try() {
		if sleepers.Load() > 0 {
			time.Sleep(time.Millisecond)
		} else {
			runtime.Gosched()
		}
	}
}

var sleepers atomic.Int32

// SleepHoldingLocks is time.Sleep for harness code that runs inside engine callbacks (possibly under engine
// locks): it tells lock waiters that the holder is asleep in simulated time.
func SleepHoldingLocks(d time.Duration) {
	sleepers.Add(1)
	time.Sleep(d)
	sleepers.Add(-1)
}
