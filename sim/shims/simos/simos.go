// Package simos is the simulator's disk. A build overlay adds it to the quickfix module (as
// github.com/quickfixgo/quickfix/verifsim/simos) and redirects the "os" import of store/file/*.go
// to it, so the real file store runs unchanged on an in-memory file system the simulator owns:
// every operation is logged, can be failed, and crash images (process crash: everything written so
// far, the in-flight write cut at any byte; power loss: per file only what was synced plus a prefix
// of the later writes) can be materialised as fresh file systems.
//
// Assumptions of the model, stated in DESIGN.md: a write is atomic per byte (a crash keeps a prefix
// of it), Sync makes the file's current content durable, creation/removal of directory entries is
// durable at once, files never shrink except by Truncate/O_TRUNC.
package simos

import (
	"errors"
	"io"
	"io/fs"
	"os"
	"path"
	"sort"
	"strings"
	"sync"
	"time"
)

// ---- names mirrored from package os ----

type FileMode = fs.FileMode
type FileInfo = fs.FileInfo
type PathError = fs.PathError

const (
	O_RDONLY = os.O_RDONLY
	O_WRONLY = os.O_WRONLY
	O_RDWR   = os.O_RDWR
	O_APPEND = os.O_APPEND
	O_CREATE = os.O_CREATE
	O_EXCL   = os.O_EXCL
	O_SYNC   = os.O_SYNC
	O_TRUNC  = os.O_TRUNC

	ModePerm = fs.ModePerm
	ModeDir  = fs.ModeDir

	SEEK_SET = 0
	SEEK_CUR = 1
	SEEK_END = 2
)

var (
	ErrNotExist   = fs.ErrNotExist
	ErrExist      = fs.ErrExist
	ErrClosed     = fs.ErrClosed
	ErrPermission = fs.ErrPermission
	ErrInvalid    = fs.ErrInvalid
)

func IsNotExist(err error) bool   { return errors.Is(err, fs.ErrNotExist) }
func IsExist(err error) bool      { return errors.Is(err, fs.ErrExist) }
func IsPermission(err error) bool { return errors.Is(err, fs.ErrPermission) }

// ---- op log ----

type OpKind int

const (
	OpCreate OpKind = iota // directory entry appears (empty file)
	OpWrite
	OpSync
	OpRemove
	OpTruncate
	OpOpen  // open of an existing file (no state change; fault point)
	OpClose // no state change
	OpRead  // whole-file read / ReadAt (no state change; fault point)
	OpRename
)

func (k OpKind) String() string {
	return [...]string{"create", "write", "sync", "remove", "truncate", "open", "close", "read", "rename"}[k]
}

type Op struct {
	Kind OpKind
	Path string
	Off  int64
	Data []byte // OpWrite: bytes; OpRename: new path
	Size int64  // OpTruncate
	Err  bool   // the op was failed by fault injection (no state change, or Short bytes for writes)
}

// Fault describes what to do at one global op index.
type Fault struct {
	Err   error // returned to the caller
	Short int   // OpWrite only: this many bytes are written before Err is returned
}

// CrashSignal is panicked out of the op chosen as crash point (C17 drives the store synchronously
// and recovers it).
type CrashSignal struct{ Op int }

type inode struct {
	data    []byte
	durable []byte // content as of the last Sync
	synced  bool
	removed bool
}

type FS struct {
	mu    sync.Mutex
	files map[string]*inode
	dirs  map[string]bool
	Ops   []Op
	// Faults by global op index (index into Ops of the op about to be logged).
	Faults map[int]Fault
	// CrashAt: if >=0, the op with this index panics CrashSignal before taking effect, except that
	// for a write the first CrashCut bytes take effect.
	CrashAt  int
	CrashCut int
	Fired    map[string]int
	// WriteFaultIn > 0 arms WriteFault for the WriteFaultIn-th write or sync op from now on (other op
	// kinds are not counted); it disarms itself when it fires. Workloads that want "the disk fails
	// somewhere inside the next save" use it instead of absolute op indices.
	WriteFaultIn int
	WriteFault   Fault
	// Handles not closed (leak probe).
	open int
}

func NewFS() *FS {
	return &FS{files: map[string]*inode{}, dirs: map[string]bool{"/": true, ".": true}, Faults: map[int]Fault{}, CrashAt: -1, Fired: map[string]int{}}
}

var (
	curMu sync.Mutex
	cur   *FS
)

func SetCurrent(f *FS) { curMu.Lock(); cur = f; curMu.Unlock() }
func Current() *FS {
	curMu.Lock()
	defer curMu.Unlock()
	if cur == nil {
		cur = NewFS()
	}
	return cur
}

func clean(p string) string { return path.Clean(p) }

// gate logs an op and applies faults. Called with mu held. Returns (shortBytes, err, crashCut)
// where crashCut>=0 means: apply that many bytes (writes) and then panic.
func (f *FS) gate(op Op) (idx int, ft *Fault, crash bool) {
	idx = len(f.Ops)
	f.Ops = append(f.Ops, op)
	if f.CrashAt == idx {
		return idx, nil, true
	}
	if f.WriteFaultIn > 0 && (op.Kind == OpWrite || op.Kind == OpSync) {
		f.WriteFaultIn--
		if f.WriteFaultIn == 0 {
			flt := f.WriteFault
			f.Ops[idx].Err = true
			f.Fired[op.Kind.String()+"_err"]++
			return idx, &flt, false
		}
	}
	if flt, ok := f.Faults[idx]; ok {
		f.Ops[idx].Err = true
		f.Fired[op.Kind.String()+"_err"]++
		return idx, &flt, false
	}
	return idx, nil, false
}

// ArmWriteFault arms a fault for the n-th upcoming write/sync op (n >= 1); DisarmWriteFault reports whether
// it is still pending and removes it.
func (f *FS) ArmWriteFault(n int, flt Fault) {
	f.mu.Lock()
	f.WriteFaultIn, f.WriteFault = n, flt
	f.mu.Unlock()
}

func (f *FS) DisarmWriteFault() bool {
	f.mu.Lock()
	defer f.mu.Unlock()
	pending := f.WriteFaultIn > 0
	f.WriteFaultIn = 0
	return pending
}

func (f *FS) NumOps() int {
	f.mu.Lock()
	defer f.mu.Unlock()
	return len(f.Ops)
}

// ---- package-level functions mirroring os ----

func MkdirAll(p string, _ FileMode) error {
	f := Current()
	f.mu.Lock()
	defer f.mu.Unlock()
	p = clean(p)
	for d := p; d != "/" && d != "."; d = path.Dir(d) {
		if ino, ok := f.files[d]; ok && !ino.removed {
			return &fs.PathError{Op: "mkdir", Path: d, Err: errors.New("not a directory")}
		}
		f.dirs[d] = true
	}
	return nil
}

func Mkdir(p string, m FileMode) error { return MkdirAll(p, m) }

func OpenFile(name string, flag int, _ FileMode) (*File, error) {
	f := Current()
	name = clean(name)
	f.mu.Lock()
	ino, ok := f.files[name]
	if !ok {
		if flag&O_CREATE == 0 {
			f.mu.Unlock()
			return nil, &fs.PathError{Op: "open", Path: name, Err: fs.ErrNotExist}
		}
		if !f.dirs[path.Dir(name)] {
			f.mu.Unlock()
			return nil, &fs.PathError{Op: "open", Path: name, Err: fs.ErrNotExist}
		}
		_, ft, crash := f.gate(Op{Kind: OpCreate, Path: name})
		if crash {
			f.mu.Unlock()
			panic(CrashSignal{f.CrashAt})
		}
		if ft != nil {
			f.mu.Unlock()
			return nil, &fs.PathError{Op: "open", Path: name, Err: ft.Err}
		}
		ino = &inode{synced: true}
		f.files[name] = ino
	} else {
		if flag&O_CREATE != 0 && flag&O_EXCL != 0 {
			f.mu.Unlock()
			return nil, &fs.PathError{Op: "open", Path: name, Err: fs.ErrExist}
		}
		_, ft, crash := f.gate(Op{Kind: OpOpen, Path: name})
		if crash {
			f.mu.Unlock()
			panic(CrashSignal{f.CrashAt})
		}
		if ft != nil {
			f.mu.Unlock()
			return nil, &fs.PathError{Op: "open", Path: name, Err: ft.Err}
		}
	}
	f.open++
	h := &File{fs: f, ino: ino, name: name, flag: flag}
	f.mu.Unlock()
	if flag&O_TRUNC != 0 {
		if err := h.Truncate(0); err != nil {
			return nil, err
		}
	}
	return h, nil
}

func Open(name string) (*File, error)   { return OpenFile(name, O_RDONLY, 0) }
func Create(name string) (*File, error) { return OpenFile(name, O_RDWR|O_CREATE|O_TRUNC, 0666) }

func ReadFile(name string) ([]byte, error) {
	f := Current()
	name = clean(name)
	f.mu.Lock()
	defer f.mu.Unlock()
	ino, ok := f.files[name]
	if !ok {
		return nil, &fs.PathError{Op: "open", Path: name, Err: fs.ErrNotExist}
	}
	_, ft, crash := f.gate(Op{Kind: OpRead, Path: name})
	if crash {
		panic(CrashSignal{f.CrashAt})
	}
	if ft != nil {
		return nil, &fs.PathError{Op: "read", Path: name, Err: ft.Err}
	}
	return append([]byte(nil), ino.data...), nil
}

func WriteFile(name string, data []byte, perm FileMode) error {
	h, err := OpenFile(name, O_WRONLY|O_CREATE|O_TRUNC, perm)
	if err != nil {
		return err
	}
	_, err = h.Write(data)
	if err1 := h.Close(); err1 != nil && err == nil {
		err = err1
	}
	return err
}

func Remove(name string) error {
	f := Current()
	name = clean(name)
	f.mu.Lock()
	defer f.mu.Unlock()
	ino, ok := f.files[name]
	if !ok {
		if f.dirs[name] {
			delete(f.dirs, name)
			return nil
		}
		return &fs.PathError{Op: "remove", Path: name, Err: fs.ErrNotExist}
	}
	_, ft, crash := f.gate(Op{Kind: OpRemove, Path: name})
	if crash {
		panic(CrashSignal{f.CrashAt})
	}
	if ft != nil {
		return &fs.PathError{Op: "remove", Path: name, Err: ft.Err}
	}
	ino.removed = true
	delete(f.files, name)
	return nil
}

func RemoveAll(name string) error {
	f := Current()
	name = clean(name)
	f.mu.Lock()
	var victims []string
	for p := range f.files {
		if p == name || strings.HasPrefix(p, name+"/") {
			victims = append(victims, p)
		}
	}
	f.mu.Unlock()
	sort.Strings(victims)
	for _, p := range victims {
		if err := Remove(p); err != nil {
			return err
		}
	}
	return nil
}

func Rename(oldp, newp string) error {
	f := Current()
	oldp, newp = clean(oldp), clean(newp)
	f.mu.Lock()
	defer f.mu.Unlock()
	ino, ok := f.files[oldp]
	if !ok {
		return &fs.PathError{Op: "rename", Path: oldp, Err: fs.ErrNotExist}
	}
	_, ft, crash := f.gate(Op{Kind: OpRename, Path: oldp, Data: []byte(newp)})
	if crash {
		panic(CrashSignal{f.CrashAt})
	}
	if ft != nil {
		return &fs.PathError{Op: "rename", Path: oldp, Err: ft.Err}
	}
	if old, ok := f.files[newp]; ok {
		old.removed = true
	}
	delete(f.files, oldp)
	f.files[newp] = ino
	return nil
}

func Truncate(name string, size int64) error {
	h, err := OpenFile(name, O_RDWR, 0)
	if err != nil {
		return err
	}
	defer h.Close()
	return h.Truncate(size)
}

type fileInfo struct {
	name string
	size int64
	dir  bool
}

func (i fileInfo) Name() string { return path.Base(i.name) }
func (i fileInfo) Size() int64  { return i.size }
func (i fileInfo) Mode() FileMode {
	if i.dir {
		return fs.ModeDir | 0755
	}
	return 0660
}
func (i fileInfo) ModTime() time.Time { return time.Time{} }
func (i fileInfo) IsDir() bool        { return i.dir }
func (i fileInfo) Sys() any           { return nil }

func Stat(name string) (FileInfo, error) {
	f := Current()
	name = clean(name)
	f.mu.Lock()
	defer f.mu.Unlock()
	if ino, ok := f.files[name]; ok {
		return fileInfo{name: name, size: int64(len(ino.data))}, nil
	}
	if f.dirs[name] {
		return fileInfo{name: name, dir: true}, nil
	}
	return nil, &fs.PathError{Op: "stat", Path: name, Err: fs.ErrNotExist}
}

func Lstat(name string) (FileInfo, error) { return Stat(name) }

// ---- File ----

type File struct {
	fs     *FS
	ino    *inode
	name   string
	flag   int
	pos    int64
	closed bool
}

func (h *File) Name() string { return h.name }

func (h *File) Stat() (FileInfo, error) {
	h.fs.mu.Lock()
	defer h.fs.mu.Unlock()
	if h.closed {
		return nil, &fs.PathError{Op: "stat", Path: h.name, Err: fs.ErrClosed}
	}
	return fileInfo{name: h.name, size: int64(len(h.ino.data))}, nil
}

func (h *File) Seek(offset int64, whence int) (int64, error) {
	h.fs.mu.Lock()
	defer h.fs.mu.Unlock()
	if h.closed {
		return 0, &fs.PathError{Op: "seek", Path: h.name, Err: fs.ErrClosed}
	}
	var np int64
	switch whence {
	case io.SeekStart:
		np = offset
	case io.SeekCurrent:
		np = h.pos + offset
	case io.SeekEnd:
		np = int64(len(h.ino.data)) + offset
	default:
		return 0, &fs.PathError{Op: "seek", Path: h.name, Err: fs.ErrInvalid}
	}
	if np < 0 {
		return 0, &fs.PathError{Op: "seek", Path: h.name, Err: fs.ErrInvalid}
	}
	h.pos = np
	return np, nil
}

func (h *File) Read(p []byte) (int, error) {
	h.fs.mu.Lock()
	defer h.fs.mu.Unlock()
	if h.closed {
		return 0, &fs.PathError{Op: "read", Path: h.name, Err: fs.ErrClosed}
	}
	if h.pos >= int64(len(h.ino.data)) {
		return 0, io.EOF
	}
	n := copy(p, h.ino.data[h.pos:])
	h.pos += int64(n)
	return n, nil
}

func (h *File) ReadAt(p []byte, off int64) (int, error) {
	h.fs.mu.Lock()
	defer h.fs.mu.Unlock()
	if h.closed {
		return 0, &fs.PathError{Op: "read", Path: h.name, Err: fs.ErrClosed}
	}
	if off < 0 {
		return 0, &fs.PathError{Op: "readat", Path: h.name, Err: errors.New("negative offset")}
	}
	if off >= int64(len(h.ino.data)) {
		if len(p) == 0 {
			return 0, nil
		}
		return 0, io.EOF
	}
	n := copy(p, h.ino.data[off:])
	if n < len(p) {
		return n, io.EOF
	}
	return n, nil
}

func (ino *inode) writeAt(b []byte, off int64) {
	end := off + int64(len(b))
	if end > int64(len(ino.data)) {
		nd := make([]byte, end)
		copy(nd, ino.data)
		ino.data = nd
	}
	copy(ino.data[off:], b)
	if len(b) > 0 {
		ino.synced = false
	}
}

func (h *File) write(p []byte, off int64, advance bool) (int, error) {
	h.fs.mu.Lock()
	if h.closed {
		h.fs.mu.Unlock()
		return 0, &fs.PathError{Op: "write", Path: h.name, Err: fs.ErrClosed}
	}
	if h.flag&(O_WRONLY|O_RDWR) == 0 {
		h.fs.mu.Unlock()
		return 0, &fs.PathError{Op: "write", Path: h.name, Err: fs.ErrPermission}
	}
	if h.flag&O_APPEND != 0 {
		off = int64(len(h.ino.data))
	}
	idx, ft, crash := h.fs.gate(Op{Kind: OpWrite, Path: h.name, Off: off, Data: append([]byte(nil), p...)})
	if crash {
		cut := h.fs.CrashCut
		if cut > len(p) {
			cut = len(p)
		}
		if !h.ino.removed || true {
			h.ino.writeAt(p[:cut], off)
		}
		h.fs.mu.Unlock()
		panic(CrashSignal{idx})
	}
	if ft != nil {
		n := ft.Short
		if n > len(p) {
			n = len(p)
		}
		h.ino.writeAt(p[:n], off)
		h.fs.Ops[idx].Data = append([]byte(nil), p[:n]...)
		if advance {
			h.pos = off + int64(n)
		}
		h.fs.mu.Unlock()
		return n, &fs.PathError{Op: "write", Path: h.name, Err: ft.Err}
	}
	h.ino.writeAt(p, off)
	if advance {
		h.pos = off + int64(len(p))
	}
	h.fs.mu.Unlock()
	return len(p), nil
}

func (h *File) Write(p []byte) (int, error) { return h.write(p, h.pos, true) }
func (h *File) WriteString(s string) (int, error) {
	return h.write([]byte(s), h.pos, true)
}
func (h *File) WriteAt(p []byte, off int64) (int, error) { return h.write(p, off, false) }

func (h *File) Sync() error {
	h.fs.mu.Lock()
	defer h.fs.mu.Unlock()
	if h.closed {
		return &fs.PathError{Op: "sync", Path: h.name, Err: fs.ErrClosed}
	}
	_, ft, crash := h.fs.gate(Op{Kind: OpSync, Path: h.name})
	if crash {
		panic(CrashSignal{h.fs.CrashAt})
	}
	if ft != nil {
		return &fs.PathError{Op: "sync", Path: h.name, Err: ft.Err}
	}
	h.ino.durable = append([]byte(nil), h.ino.data...)
	h.ino.synced = true
	return nil
}

func (h *File) Truncate(size int64) error {
	h.fs.mu.Lock()
	defer h.fs.mu.Unlock()
	if h.closed {
		return &fs.PathError{Op: "truncate", Path: h.name, Err: fs.ErrClosed}
	}
	_, ft, crash := h.fs.gate(Op{Kind: OpTruncate, Path: h.name, Size: size})
	if crash {
		panic(CrashSignal{h.fs.CrashAt})
	}
	if ft != nil {
		return &fs.PathError{Op: "truncate", Path: h.name, Err: ft.Err}
	}
	if size < int64(len(h.ino.data)) {
		h.ino.data = h.ino.data[:size]
	} else {
		nd := make([]byte, size)
		copy(nd, h.ino.data)
		h.ino.data = nd
	}
	h.ino.synced = false
	return nil
}

func (h *File) Close() error {
	h.fs.mu.Lock()
	defer h.fs.mu.Unlock()
	if h.closed {
		return &fs.PathError{Op: "close", Path: h.name, Err: fs.ErrClosed}
	}
	h.closed = true
	h.fs.open--
	return nil
}

func (h *File) Fd() uintptr { return ^uintptr(0) }

// ---- images ----

// Snapshot returns the current volatile content of every file (what a process crash right now,
// between operations, leaves behind).
func (f *FS) Snapshot() map[string][]byte {
	f.mu.Lock()
	defer f.mu.Unlock()
	m := map[string][]byte{}
	for p, ino := range f.files {
		m[p] = append([]byte(nil), ino.data...)
	}
	return m
}

// DurableSnapshot returns per file what survives a power loss right now if no unsynced byte made
// it to the medium.
func (f *FS) DurableSnapshot() map[string][]byte {
	f.mu.Lock()
	defer f.mu.Unlock()
	m := map[string][]byte{}
	for p, ino := range f.files {
		m[p] = append([]byte(nil), ino.durable...)
	}
	return m
}

// Unsynced reports how many files hold content that is not durable.
func (f *FS) Unsynced() int {
	f.mu.Lock()
	defer f.mu.Unlock()
	n := 0
	for _, ino := range f.files {
		if !ino.synced {
			n++
		}
	}
	return n
}

func (f *FS) Dirs() []string {
	f.mu.Lock()
	defer f.mu.Unlock()
	var d []string
	for p := range f.dirs {
		d = append(d, p)
	}
	sort.Strings(d)
	return d
}

// FromImage builds a fresh file system holding the given files, all durable.
func FromImage(img map[string][]byte, dirs []string) *FS {
	f := NewFS()
	for _, d := range dirs {
		f.dirs[d] = true
	}
	for p, b := range img {
		f.files[p] = &inode{data: append([]byte(nil), b...), durable: append([]byte(nil), b...), synced: true}
		for d := path.Dir(p); d != "/" && d != "."; d = path.Dir(d) {
			f.dirs[d] = true
		}
	}
	return f
}

// ReplaceWithImage swaps the content of f for img in place: open handles of the old content keep
// pointing at orphaned inodes (a discarded process may still scribble on them, invisibly), paths
// resolve to the new content. Used for crashing one of two engines sharing the world's disk.
func (f *FS) ReplaceUnder(prefix string, img map[string][]byte) {
	f.mu.Lock()
	defer f.mu.Unlock()
	for p, ino := range f.files {
		if strings.HasPrefix(p, prefix) {
			ino.removed = true
			delete(f.files, p)
		}
	}
	for p, b := range img {
		if strings.HasPrefix(p, prefix) {
			f.files[p] = &inode{data: append([]byte(nil), b...), durable: append([]byte(nil), b...), synced: true}
		}
	}
}

// ImageAt reconstructs, from the op log, the file contents after ops [0,k) took effect plus the
// first cut bytes of op k when that is a write. When power is true only synced content survives,
// plus, per file, the first keep[path] of the unsynced write ops that followed its last sync
// (keep<0 or missing: none).
func ImageAt(base map[string][]byte, ops []Op, k int, cut int, power bool, keep map[string]int) map[string][]byte {
	type st struct {
		data     []byte
		durable  []byte
		pending  []Op // writes/truncates since last sync
		exists   bool
	}
	files := map[string]*st{}
	for p, b := range base {
		files[p] = &st{data: append([]byte(nil), b...), durable: append([]byte(nil), b...), exists: true}
	}
	apply := func(data []byte, o Op) []byte {
		switch o.Kind {
		case OpWrite:
			end := o.Off + int64(len(o.Data))
			if end > int64(len(data)) {
				nd := make([]byte, end)
				copy(nd, data)
				data = nd
			}
			copy(data[o.Off:], o.Data)
		case OpTruncate:
			if o.Size < int64(len(data)) {
				data = data[:o.Size]
			} else {
				nd := make([]byte, o.Size)
				copy(nd, data)
				data = nd
			}
		}
		return data
	}
	lim := k
	if lim > len(ops) {
		lim = len(ops)
	}
	for i := 0; i <= lim && i < len(ops); i++ {
		o := ops[i]
		if i == lim {
			if o.Kind != OpWrite || cut <= 0 {
				break
			}
			if cut < len(o.Data) {
				o.Data = o.Data[:cut]
			}
		}
		if o.Err && o.Kind != OpWrite {
			continue
		}
		s := files[o.Path]
		switch o.Kind {
		case OpCreate:
			files[o.Path] = &st{exists: true}
		case OpWrite, OpTruncate:
			if s == nil {
				continue // write through a handle to a removed file
			}
			s.data = apply(s.data, o)
			s.pending = append(s.pending, o)
		case OpSync:
			if s == nil {
				continue
			}
			s.durable = append([]byte(nil), s.data...)
			s.pending = nil
		case OpRemove:
			delete(files, o.Path)
		case OpRename:
			if s != nil {
				delete(files, o.Path)
				files[string(o.Data)] = s
			}
		}
	}
	img := map[string][]byte{}
	for p, s := range files {
		if !power {
			img[p] = s.data
			continue
		}
		d := append([]byte(nil), s.durable...)
		n := -1
		if keep != nil {
			if v, ok := keep[p]; ok {
				n = v
			}
		}
		for i := 0; i < n && i < len(s.pending); i++ {
			d = apply(d, s.pending[i])
		}
		img[p] = d
	}
	return img
}

// PendingCounts returns, for the state after ops [0,k) (+cut of op k), the number of unsynced
// write ops per file: the range of meaningful keep values for ImageAt.
func PendingCounts(base map[string][]byte, ops []Op, k int, cut int) map[string]int {
	pend := map[string]int{}
	exists := map[string]bool{}
	for p := range base {
		exists[p] = true
	}
	for i := 0; i <= k && i < len(ops); i++ {
		o := ops[i]
		if i == k && (o.Kind != OpWrite || cut <= 0) {
			break
		}
		if o.Err && o.Kind != OpWrite {
			continue
		}
		switch o.Kind {
		case OpCreate:
			exists[o.Path] = true
			pend[o.Path] = 0
		case OpWrite, OpTruncate:
			if exists[o.Path] {
				pend[o.Path]++
			}
		case OpSync:
			pend[o.Path] = 0
		case OpRemove:
			delete(exists, o.Path)
			delete(pend, o.Path)
		case OpRename:
			np := string(o.Data)
			exists[np] = exists[o.Path]
			pend[np] = pend[o.Path]
			delete(exists, o.Path)
			delete(pend, o.Path)
		}
	}
	return pend
}
