// Package simnet is the simulator's transport. It is added to the quickfix module by a build
// overlay (as github.com/quickfixgo/quickfix/verifsim/simnet) so that dialer.go, whose "net" import
// the instrumenter redirects here, and the harness share one in-memory network.
//
// Model: a connection is a pair of endpoints. Bytes written on an endpoint go to that endpoint's
// out queue (in flight); they become readable at the other endpoint only when the simulator
// delivers them: on driver links the driver takes/feeds bytes itself, on pumped links (two real
// engines) the driver delivers each write after the world's fixed one-way latency, in FIFO order,
// one chunk at a time (World.NextDue / DeliverOne). Close is a FIN: the other side reads what is in flight and then EOF. TCP semantics
// only: no loss, duplication or reordering inside a connection; a cut loses a chosen suffix of the
// in-flight bytes of each direction.
package simnet

import (
	"context"
	"errors"
	"io"
	"net"
	"strconv"
	"sync"
	"time"
)

// ---- names mirrored from package net so that dialer.go compiles against this package ----

type Conn = net.Conn
type Addr = net.Addr
type TCPAddr = net.TCPAddr
type Listener = net.Listener
type Error = net.Error
type OpError = net.OpError
type IP = net.IP

func JoinHostPort(host, port string) string { return net.JoinHostPort(host, port) }
func SplitHostPort(hostport string) (string, string, error) {
	return net.SplitHostPort(hostport)
}

// Dialer stands in for net.Dialer.
type Dialer struct {
	Timeout   time.Duration
	Deadline  time.Time
	LocalAddr net.Addr
	KeepAlive time.Duration
}

func (d *Dialer) DialContext(ctx context.Context, network, address string) (net.Conn, error) {
	w := Current()
	if w == nil {
		return nil, errors.New("simnet: no world")
	}
	return w.dial(ctx, address)
}

func (d *Dialer) Dial(network, address string) (net.Conn, error) {
	return d.DialContext(context.Background(), network, address)
}

// ---- the world ----

var (
	curMu sync.Mutex
	cur   *World
)

func SetCurrent(w *World) { curMu.Lock(); cur = w; curMu.Unlock() }
func Current() *World    { curMu.Lock(); defer curMu.Unlock(); return cur }

type World struct {
	mu        sync.Mutex
	listeners map[int]*SimListener
	refuse    map[int]bool
	dialled   []*Endpoint
	nconn     int
	Links     []*Link
	// Latency is the one-way delay of pumped links; set before engines start.
	Latency time.Duration
	Refused int
	// OnEndpoint is called for every endpoint owned by an engine, before anything can use it.
	OnEndpoint func(e *Endpoint)
	// WriteSig (capacity 1) is signalled whenever something is written or closed on a pumped link,
	// so that a driver sleeping towards the next delivery wakes up and re-plans.
	WriteSig chan struct{}
}

func NewWorld() *World {
	return &World{listeners: map[int]*SimListener{}, refuse: map[int]bool{}, WriteSig: make(chan struct{}, 1)}
}

// SetRefuse makes dials to port fail with "connection refused" while on.
func (w *World) SetRefuse(port int, on bool) {
	w.mu.Lock()
	w.refuse[port] = on
	w.mu.Unlock()
}

func portOf(address string) int {
	_, p, err := net.SplitHostPort(address)
	if err != nil {
		p = address
	}
	n, _ := strconv.Atoi(p)
	return n
}

// Listen is what Acceptor.SetNewListenerCallback hands out.
func (w *World) Listen(address string) (net.Listener, error) {
	w.mu.Lock()
	defer w.mu.Unlock()
	port := portOf(address)
	l := &SimListener{w: w, addr: &net.TCPAddr{IP: net.IPv4(127, 0, 0, 1), Port: port}, ch: make(chan *Endpoint, 256), done: make(chan struct{})}
	w.listeners[port] = l
	return l, nil
}

func (w *World) newLinkLocked(port int, pumped bool) *Link {
	w.nconn++
	l := &Link{ID: w.nconn, w: w, Pumped: pumped}
	la := &net.TCPAddr{IP: net.IPv4(127, 0, 0, 1), Port: 40000 + w.nconn}
	lb := &net.TCPAddr{IP: net.IPv4(127, 0, 0, 1), Port: port}
	l.A = &Endpoint{link: l, side: 0, local: la, remote: lb, wake: make(chan struct{}, 1)}
	l.B = &Endpoint{link: l, side: 1, local: lb, remote: la, wake: make(chan struct{}, 1)}
	l.A.peer, l.B.peer = l.B, l.A
	w.Links = append(w.Links, l)
	return l
}

// DriverDial connects the driver (stub peer) to a listening engine and returns the ENGINE's
// endpoint; the driver drives it with Feed/FeedEOF/TakeOut. The driver's own endpoint is unused.
func (w *World) DriverDial(port int) (*Endpoint, error) {
	w.mu.Lock()
	l, ok := w.listeners[port]
	if !ok || l.closed {
		w.mu.Unlock()
		return nil, errors.New("simnet: connection refused")
	}
	link := w.newLinkLocked(port, false)
	hook := w.OnEndpoint
	w.mu.Unlock()
	if hook != nil {
		hook(link.B)
	}
	select {
	case l.ch <- link.B:
	default:
		return nil, errors.New("simnet: backlog full")
	}
	return link.B, nil
}

func (w *World) dial(ctx context.Context, address string) (net.Conn, error) {
	if err := ctx.Err(); err != nil {
		return nil, err
	}
	port := portOf(address)
	w.mu.Lock()
	if w.refuse[port] {
		w.Refused++
		w.mu.Unlock()
		return nil, &net.OpError{Op: "dial", Net: "tcp", Err: errors.New("connection refused")}
	}
	l, ok := w.listeners[port]
	if ok && !l.closed {
		link := w.newLinkLocked(port, true)
		hook := w.OnEndpoint
		w.mu.Unlock()
		if hook != nil {
			hook(link.A)
			hook(link.B)
		}
		select {
		case l.ch <- link.B:
		default:
			return nil, errors.New("simnet: backlog full")
		}
		return link.A, nil
	}
	// No listener: the driver plays the server and drives the engine's endpoint directly.
	link := w.newLinkLocked(port, false)
	w.dialled = append(w.dialled, link.A)
	hook := w.OnEndpoint
	w.mu.Unlock()
	if hook != nil {
		hook(link.A)
	}
	return link.A, nil
}

// TakeDialled returns the engine-side endpoints of connections engines dialled to the driver.
func (w *World) TakeDialled() []*Endpoint {
	w.mu.Lock()
	defer w.mu.Unlock()
	d := w.dialled
	w.dialled = nil
	return d
}

// ---- listener ----

type SimListener struct {
	w      *World
	addr   *net.TCPAddr
	ch     chan *Endpoint
	done   chan struct{}
	closed bool
}

func (l *SimListener) Accept() (net.Conn, error) {
	select {
	case c := <-l.ch:
		return c, nil
	case <-l.done:
		return nil, errors.New("simnet: listener closed")
	}
}

func (l *SimListener) Close() error {
	l.w.mu.Lock()
	defer l.w.mu.Unlock()
	if !l.closed {
		l.closed = true
		close(l.done)
	}
	return nil
}

func (l *SimListener) Addr() net.Addr { return l.addr }

// ---- link and endpoints ----

type Link struct {
	ID     int
	w      *World
	A, B   *Endpoint // A dialled, B accepted
	Pumped bool
	CutAt  time.Time
	IsCut  bool
}

type chunk struct {
	b   []byte
	due time.Time
	at  time.Time
	fin bool
}

// Endpoint implements net.Conn. State is guarded by the world's mutex, held only for a few
// instructions and never across a block, so it does not interfere with quiescence detection.
type Endpoint struct {
	link   *Link
	side   int
	peer   *Endpoint
	local  *net.TCPAddr
	remote *net.TCPAddr

	// receive side (read by the owner)
	rx      [][]byte
	rxEOF   bool
	rxErr   error
	wake    chan struct{}
	closed  bool
	MaxRead int // >0: cap on bytes returned per Read
	Reads   int

	// send side
	out     []chunk
	outFIN  bool
	dead    bool // writes are swallowed (half-open or cut)
	cutKept []chunk
	writeErr error // set by a cut: later writes fail like on a reset TCP connection
	stalled time.Duration // extra delay added to chunks written from now on (stall fault)
	gate    chan struct{} // non-nil: every Write first takes one token from it (a slow socket, released write by write)
	block   chan struct{} // non-nil: Write does not return (the counterparty has stopped reading, the buffers are full)
	BlockedWrites int

	Written         [][]byte
	WrittenAt       []time.Time
	WriteAfterClose int
	WriteErrors     int
	ClosedAt        time.Time
	// OnWrite is called synchronously on the writing goroutine, outside the lock.
	OnWrite func(e *Endpoint, b []byte)
	// OnClose is called synchronously on the closing goroutine.
	OnClose func(e *Endpoint)
	Tag     string
}

func (e *Endpoint) Link() *Link                      { return e.link }
func (e *Endpoint) Side() int                        { return e.side }
func (e *Endpoint) Peer() *Endpoint                  { return e.peer }
func (e *Endpoint) LocalAddr() net.Addr              { return e.local }
func (e *Endpoint) RemoteAddr() net.Addr             { return e.remote }
func (e *Endpoint) SetDeadline(time.Time) error      { return nil }
func (e *Endpoint) SetReadDeadline(time.Time) error  { return nil }
func (e *Endpoint) SetWriteDeadline(time.Time) error { return nil }

func (e *Endpoint) signal() {
	select {
	case e.wake <- struct{}{}:
	default:
	}
}

func (e *Endpoint) Read(p []byte) (int, error) {
	if len(p) == 0 {
		return 0, nil
	}
	for {
		e.link.w.mu.Lock()
		if e.closed {
			e.link.w.mu.Unlock()
			return 0, errors.New("simnet: use of closed connection")
		}
		if len(e.rx) > 0 {
			c := e.rx[0]
			n := len(c)
			if n > len(p) {
				n = len(p)
			}
			if e.MaxRead > 0 && n > e.MaxRead {
				n = e.MaxRead
			}
			copy(p, c[:n])
			if n == len(c) {
				e.rx = e.rx[1:]
			} else {
				e.rx[0] = c[n:]
			}
			e.Reads++
			e.link.w.mu.Unlock()
			return n, nil
		}
		if e.rxErr != nil {
			err := e.rxErr
			e.link.w.mu.Unlock()
			return 0, err
		}
		if e.rxEOF {
			e.link.w.mu.Unlock()
			return 0, io.EOF
		}
		e.link.w.mu.Unlock()
		<-e.wake
	}
}

func (e *Endpoint) Write(p []byte) (int, error) {
	b := append([]byte(nil), p...)
	e.link.w.mu.Lock()
	for e.block != nil && !e.closed {
		// a counterparty that has stopped reading: the call returns when it reads again or when the
		// connection is closed under it
		blk := e.block
		e.BlockedWrites++
		e.link.w.mu.Unlock()
		<-blk
		e.link.w.mu.Lock()
	}
	if g := e.gate; g != nil && !e.closed {
		e.link.w.mu.Unlock()
		<-g // one token per write; closed by UngateWrites or Close
		e.link.w.mu.Lock()
	}
	now := time.Now()
	if e.closed {
		e.WriteAfterClose++
		e.link.w.mu.Unlock()
		return 0, errors.New("simnet: write on closed connection")
	}
	if e.writeErr != nil {
		err := e.writeErr
		e.WriteErrors++
		e.link.w.mu.Unlock()
		return 0, err
	}
	e.Written = append(e.Written, b)
	e.WrittenAt = append(e.WrittenAt, now)
	cb := e.OnWrite
	if !e.dead {
		e.out = append(e.out, chunk{b: b, due: now.Add(e.link.w.Latency + e.stalled), at: now})
	}
	pumped := e.link.Pumped
	e.link.w.mu.Unlock()
	if cb != nil {
		cb(e, b)
	}
	if pumped {
		kick(e.link.w.WriteSig)
	}
	return len(p), nil
}

func kick(ch chan struct{}) {
	if ch != nil {
		select {
		case ch <- struct{}{}:
		default:
		}
	}
}

// Close is a FIN: bytes written before it still reach the peer, then EOF.
func (e *Endpoint) Close() error {
	e.link.w.mu.Lock()
	if e.closed {
		e.link.w.mu.Unlock()
		return nil
	}
	now := time.Now()
	e.closed = true
	e.ClosedAt = now
	e.outFIN = true
	if e.block != nil {
		close(e.block)
		e.block = nil
	}
	if e.gate != nil {
		close(e.gate)
		e.gate = nil
	}
	cb := e.OnClose
	pumped := e.link.Pumped
	if pumped && !e.dead {
		e.out = append(e.out, chunk{fin: true, due: now.Add(e.link.w.Latency + e.stalled), at: now})
	}
	e.link.w.mu.Unlock()
	e.signal()
	if pumped {
		kick(e.link.w.WriteSig)
	}
	if cb != nil {
		cb(e)
	}
	return nil
}

// NextDue returns the earliest due time among the in-flight chunks of pumped links.
func (w *World) NextDue() (time.Time, bool) {
	w.mu.Lock()
	defer w.mu.Unlock()
	var best time.Time
	found := false
	for _, l := range w.Links {
		if !l.Pumped || l.IsCut {
			continue
		}
		for _, e := range []*Endpoint{l.A, l.B} {
			if len(e.out) > 0 && !e.dead {
				if d := e.out[0].due; !found || d.Before(best) {
					best, found = d, true
				}
			}
		}
	}
	return best, found
}

// DeliverOne delivers exactly one chunk (the earliest due; ties by link id, then side) if it is due.
// The driver settles after each call, so a receiving session never has two frames made ready at once.
func (w *World) DeliverOne() bool {
	now := time.Now()
	w.mu.Lock()
	var pick *Endpoint
	for _, l := range w.Links {
		if !l.Pumped || l.IsCut {
			continue
		}
		for _, e := range []*Endpoint{l.A, l.B} {
			if len(e.out) > 0 && !e.dead && !e.out[0].due.After(now) {
				if pick == nil || e.out[0].due.Before(pick.out[0].due) {
					pick = e
				}
			}
		}
	}
	if pick == nil {
		w.mu.Unlock()
		return false
	}
	c := pick.out[0]
	pick.out = pick.out[1:]
	if c.fin {
		pick.peer.rxEOF = true
	} else {
		pick.peer.rx = append(pick.peer.rx, c.b)
	}
	peer := pick.peer
	w.mu.Unlock()
	peer.signal()
	return true
}

// ---- driver-side operations (called on the driver goroutine at quiescence) ----

// Feed makes b readable by the endpoint's owner as one chunk.
func (e *Endpoint) Feed(b []byte) {
	e.link.w.mu.Lock()
	e.rx = append(e.rx, append([]byte(nil), b...))
	e.link.w.mu.Unlock()
	e.signal()
}

// FeedEOF ends the owner's read side after what was fed; err==nil means io.EOF.
func (e *Endpoint) FeedEOF(err error) {
	e.link.w.mu.Lock()
	if err != nil {
		e.rxErr = err
	} else {
		e.rxEOF = true
	}
	e.link.w.mu.Unlock()
	e.signal()
}

// TakeOut removes and returns the writes not yet delivered (driver links: the driver receives).
func (e *Endpoint) TakeOut() [][]byte {
	e.link.w.mu.Lock()
	defer e.link.w.mu.Unlock()
	var r [][]byte
	for _, c := range e.out {
		r = append(r, c.b)
	}
	e.out = nil
	return r
}

// TakeOutTimed is TakeOut plus the simulated instant of each write.
func (e *Endpoint) TakeOutTimed() ([][]byte, []time.Time) {
	e.link.w.mu.Lock()
	defer e.link.w.mu.Unlock()
	var r [][]byte
	var t []time.Time
	for _, c := range e.out {
		r = append(r, c.b)
		t = append(t, c.at)
	}
	e.out = nil
	return r, t
}

func (e *Endpoint) IsClosed() bool {
	e.link.w.mu.Lock()
	defer e.link.w.mu.Unlock()
	return e.closed
}

func (e *Endpoint) Unread() int {
	e.link.w.mu.Lock()
	defer e.link.w.mu.Unlock()
	n := 0
	for _, c := range e.rx {
		n += len(c)
	}
	return n
}

func (e *Endpoint) InFlight() int {
	e.link.w.mu.Lock()
	defer e.link.w.mu.Unlock()
	n := 0
	for _, c := range e.out {
		n += len(c.b)
	}
	return n
}

func (e *Endpoint) NumWritten() int {
	e.link.w.mu.Lock()
	defer e.link.w.mu.Unlock()
	return len(e.Written)
}

// SetDead makes the endpoint swallow further writes (half-open link: the peer hears nothing).
func (e *Endpoint) SetDead() {
	e.link.w.mu.Lock()
	e.dead = true
	e.out = nil
	e.link.w.mu.Unlock()
}

// BlockWrites makes Write on this endpoint block from now on (a counterparty that has stopped reading, with
// the buffers in between full) until UnblockWrites or Close.
func (e *Endpoint) BlockWrites() {
	e.link.w.mu.Lock()
	if e.block == nil && !e.closed {
		e.block = make(chan struct{})
	}
	e.link.w.mu.Unlock()
}

// GateWrites makes every Write on this endpoint wait for a token (ReleaseWrites): a slow socket whose writes
// return one at a time, when the driver says so. UngateWrites (or Close) lets everything through again.
func (e *Endpoint) GateWrites() {
	e.link.w.mu.Lock()
	if e.gate == nil && !e.closed {
		e.gate = make(chan struct{}, 4096)
	}
	e.link.w.mu.Unlock()
}

func (e *Endpoint) ReleaseWrites(n int) {
	e.link.w.mu.Lock()
	g := e.gate
	e.link.w.mu.Unlock()
	for ; g != nil && n > 0; n-- {
		g <- struct{}{}
	}
}

func (e *Endpoint) UngateWrites() {
	e.link.w.mu.Lock()
	if e.gate != nil {
		close(e.gate)
		e.gate = nil
	}
	e.link.w.mu.Unlock()
}

func (e *Endpoint) UnblockWrites() {
	e.link.w.mu.Lock()
	if e.block != nil {
		close(e.block)
		e.block = nil
	}
	e.link.w.mu.Unlock()
}

// Stall delays everything written on this endpoint from now on by d (in addition to latency).
func (e *Endpoint) Stall(d time.Duration) {
	e.link.w.mu.Lock()
	e.stalled = d
	e.link.w.mu.Unlock()
}

// A cut is performed in steps so that the driver can settle between them (a frame and the EOF
// behind it must not become ready for a session at the same time):
//
//	CutBegin(keepA, keepB)   trims each direction's in-flight bytes to the kept prefix; from now on
//	                         writes on both endpoints are swallowed
//	CutDeliverNext()         hands the next kept chunk to its receiver (false when none is left)
//	CutFinish(side, err)     EOF (or err) to the owner of endpoint side 0 (A) or 1 (B)
//
// Cut does all of it at once (teardown).
func (l *Link) CutBegin(keepA, keepB int) (int, int) {
	l.w.mu.Lock()
	defer l.w.mu.Unlock()
	if l.IsCut {
		return 0, 0
	}
	l.IsCut = true
	l.CutAt = time.Now()
	count := func(e *Endpoint) int {
		n := 0
		for _, c := range e.out {
			n += len(c.b)
		}
		return n
	}
	fa, fb := count(l.A), count(l.B)
	trim := func(e *Endpoint, keep int) {
		var kept []chunk
		for _, c := range e.out {
			if keep <= 0 || c.fin {
				break
			}
			b := c.b
			if len(b) > keep {
				b = b[:keep]
			}
			keep -= len(b)
			kept = append(kept, chunk{b: b})
		}
		e.cutKept = kept
		e.out = nil
		e.dead = true
	}
	trim(l.A, keepA)
	trim(l.B, keepB)
	return fa, fb
}

func (l *Link) CutDeliverNext() bool {
	l.w.mu.Lock()
	for _, e := range []*Endpoint{l.A, l.B} {
		if len(e.cutKept) > 0 {
			c := e.cutKept[0]
			e.cutKept = e.cutKept[1:]
			e.peer.rx = append(e.peer.rx, c.b)
			peer := e.peer
			l.w.mu.Unlock()
			peer.signal()
			return true
		}
	}
	l.w.mu.Unlock()
	return false
}

func (l *Link) CutFinish(side int, rerr error) {
	e := l.A
	if side == 1 {
		e = l.B
	}
	l.w.mu.Lock()
	if rerr != nil {
		e.rxErr = rerr
	} else {
		e.rxEOF = true
	}
	l.w.mu.Unlock()
	e.signal()
}

// Cut severs a link at once: kept prefixes arrive, then both owners read EOF (or rerr).
func (l *Link) Cut(keepA, keepB int, rerr error) (int, int) {
	fa, fb := l.CutBegin(keepA, keepB)
	for l.CutDeliverNext() {
	}
	l.CutFinish(0, rerr)
	l.CutFinish(1, rerr)
	return fa, fb
}

// FailWrites makes every later Write on both endpoints of a cut link return err (a connection reset
// as the writer sees it). Without it writes on a cut link vanish silently.
func (l *Link) FailWrites(err error) {
	l.w.mu.Lock()
	l.A.writeErr, l.B.writeErr = err, err
	l.w.mu.Unlock()
}
