// Package simnet is the simulator's transport. It is added to the quickfix module by a build
// overlay (as github.com/quickfixgo/quickfix/verifsim/simnet) so that dialer.go, whose "net" import
// the instrumenter redirects here, and the harness share one in-memory network.
//
// Model: a connection is a pair of endpoints. Bytes written on an endpoint go to that endpoint's
// out queue (in flight); they become readable at the other endpoint only when the simulator
// delivers them: on driver links the driver takes/feeds bytes itself, on pumped links (two real
// engines) a per-direction pump delivers each write after the world's fixed one-way latency, in
// FIFO order. Close is a FIN: the other side reads what is in flight and then EOF. TCP semantics
// only: no loss, duplication or reordering inside a connection; a cut loses a chosen suffix of the
// in-flight bytes of each direction.
package simnet

import (
	"context"
	"errors"
	"io"
	"net"
	"strconv"
	"sync"
	"time"
)

// ---- names mirrored from package net so that dialer.go compiles against this package ----

type Conn = net.Conn
type Addr = net.Addr
type TCPAddr = net.TCPAddr
type Listener = net.Listener
type Error = net.Error
type OpError = net.OpError
type IP = net.IP

func JoinHostPort(host, port string) string { return net.JoinHostPort(host, port) }
func SplitHostPort(hostport string) (string, string, error) {
	return net.SplitHostPort(hostport)
}

// Dialer stands in for net.Dialer.
type Dialer struct {
	Timeout   time.Duration
	Deadline  time.Time
	LocalAddr net.Addr
	KeepAlive time.Duration
}

func (d *Dialer) DialContext(ctx context.Context, network, address string) (net.Conn, error) {
	w := Current()
	if w == nil {
		return nil, errors.New("simnet: no world")
	}
	return w.dial(ctx, address)
}

func (d *Dialer) Dial(network, address string) (net.Conn, error) {
	return d.DialContext(context.Background(), network, address)
}

// ---- the world ----

var (
	curMu sync.Mutex
	cur   *World
)

func SetCurrent(w *World) { curMu.Lock(); cur = w; curMu.Unlock() }
func Current() *World    { curMu.Lock(); defer curMu.Unlock(); return cur }

type World struct {
	mu        sync.Mutex
	listeners map[int]*SimListener
	refuse    map[int]bool
	dialled   []*Endpoint
	nconn     int
	Links     []*Link
	// Latency is the one-way delay of pumped links; set before engines start.
	Latency time.Duration
	Refused int
	// OnEndpoint is called for every endpoint owned by an engine, before anything can use it.
	OnEndpoint func(e *Endpoint)
}

func NewWorld() *World {
	return &World{listeners: map[int]*SimListener{}, refuse: map[int]bool{}}
}

// SetRefuse makes dials to port fail with "connection refused" while on.
func (w *World) SetRefuse(port int, on bool) {
	w.mu.Lock()
	w.refuse[port] = on
	w.mu.Unlock()
}

func portOf(address string) int {
	_, p, err := net.SplitHostPort(address)
	if err != nil {
		p = address
	}
	n, _ := strconv.Atoi(p)
	return n
}

// Listen is what Acceptor.SetNewListenerCallback hands out.
func (w *World) Listen(address string) (net.Listener, error) {
	w.mu.Lock()
	defer w.mu.Unlock()
	port := portOf(address)
	l := &SimListener{w: w, addr: &net.TCPAddr{IP: net.IPv4(127, 0, 0, 1), Port: port}, ch: make(chan *Endpoint, 256), done: make(chan struct{})}
	w.listeners[port] = l
	return l, nil
}

func (w *World) newLinkLocked(port int, pumped bool) *Link {
	w.nconn++
	l := &Link{ID: w.nconn, w: w, Pumped: pumped}
	la := &net.TCPAddr{IP: net.IPv4(127, 0, 0, 1), Port: 40000 + w.nconn}
	lb := &net.TCPAddr{IP: net.IPv4(127, 0, 0, 1), Port: port}
	l.A = &Endpoint{link: l, side: 0, local: la, remote: lb, wake: make(chan struct{}, 1)}
	l.B = &Endpoint{link: l, side: 1, local: lb, remote: la, wake: make(chan struct{}, 1)}
	l.A.peer, l.B.peer = l.B, l.A
	w.Links = append(w.Links, l)
	if pumped {
		l.A.pumpCh = make(chan struct{}, 1)
		l.B.pumpCh = make(chan struct{}, 1)
		go l.A.pump()
		go l.B.pump()
	}
	return l
}

// DriverDial connects the driver (stub peer) to a listening engine and returns the ENGINE's
// endpoint; the driver drives it with Feed/FeedEOF/TakeOut. The driver's own endpoint is unused.
func (w *World) DriverDial(port int) (*Endpoint, error) {
	w.mu.Lock()
	l, ok := w.listeners[port]
	if !ok || l.closed {
		w.mu.Unlock()
		return nil, errors.New("simnet: connection refused")
	}
	link := w.newLinkLocked(port, false)
	hook := w.OnEndpoint
	w.mu.Unlock()
	if hook != nil {
		hook(link.B)
	}
	select {
	case l.ch <- link.B:
	default:
		return nil, errors.New("simnet: backlog full")
	}
	return link.B, nil
}

func (w *World) dial(ctx context.Context, address string) (net.Conn, error) {
	if err := ctx.Err(); err != nil {
		return nil, err
	}
	port := portOf(address)
	w.mu.Lock()
	if w.refuse[port] {
		w.Refused++
		w.mu.Unlock()
		return nil, &net.OpError{Op: "dial", Net: "tcp", Err: errors.New("connection refused")}
	}
	l, ok := w.listeners[port]
	if ok && !l.closed {
		link := w.newLinkLocked(port, true)
		hook := w.OnEndpoint
		w.mu.Unlock()
		if hook != nil {
			hook(link.A)
			hook(link.B)
		}
		select {
		case l.ch <- link.B:
		default:
			return nil, errors.New("simnet: backlog full")
		}
		return link.A, nil
	}
	// No listener: the driver plays the server and drives the engine's endpoint directly.
	link := w.newLinkLocked(port, false)
	w.dialled = append(w.dialled, link.A)
	hook := w.OnEndpoint
	w.mu.Unlock()
	if hook != nil {
		hook(link.A)
	}
	return link.A, nil
}

// TakeDialled returns the engine-side endpoints of connections engines dialled to the driver.
func (w *World) TakeDialled() []*Endpoint {
	w.mu.Lock()
	defer w.mu.Unlock()
	d := w.dialled
	w.dialled = nil
	return d
}

// ---- listener ----

type SimListener struct {
	w      *World
	addr   *net.TCPAddr
	ch     chan *Endpoint
	done   chan struct{}
	closed bool
}

func (l *SimListener) Accept() (net.Conn, error) {
	select {
	case c := <-l.ch:
		return c, nil
	case <-l.done:
		return nil, errors.New("simnet: listener closed")
	}
}

func (l *SimListener) Close() error {
	l.w.mu.Lock()
	defer l.w.mu.Unlock()
	if !l.closed {
		l.closed = true
		close(l.done)
	}
	return nil
}

func (l *SimListener) Addr() net.Addr { return l.addr }

// ---- link and endpoints ----

type Link struct {
	ID     int
	w      *World
	A, B   *Endpoint // A dialled, B accepted
	Pumped bool
	CutAt  time.Time
	IsCut  bool
}

type chunk struct {
	b   []byte
	due time.Time
	at  time.Time
}

// Endpoint implements net.Conn. State is guarded by the world's mutex, held only for a few
// instructions and never across a block, so it does not interfere with quiescence detection.
type Endpoint struct {
	link   *Link
	side   int
	peer   *Endpoint
	local  *net.TCPAddr
	remote *net.TCPAddr

	// receive side (read by the owner)
	rx      [][]byte
	rxEOF   bool
	rxErr   error
	wake    chan struct{}
	closed  bool
	MaxRead int // >0: cap on bytes returned per Read
	Reads   int

	// send side
	out     []chunk
	outFIN  bool
	dead    bool // writes are swallowed (half-open or cut)
	pumpCh  chan struct{}
	stalled time.Duration // extra delay added to chunks written from now on (stall fault)

	Written         [][]byte
	WrittenAt       []time.Time
	WriteAfterClose int
	ClosedAt        time.Time
	// OnWrite is called synchronously on the writing goroutine, outside the lock.
	OnWrite func(e *Endpoint, b []byte)
	// OnClose is called synchronously on the closing goroutine.
	OnClose func(e *Endpoint)
	Tag     string
}

func (e *Endpoint) Link() *Link                      { return e.link }
func (e *Endpoint) Side() int                        { return e.side }
func (e *Endpoint) Peer() *Endpoint                  { return e.peer }
func (e *Endpoint) LocalAddr() net.Addr              { return e.local }
func (e *Endpoint) RemoteAddr() net.Addr             { return e.remote }
func (e *Endpoint) SetDeadline(time.Time) error      { return nil }
func (e *Endpoint) SetReadDeadline(time.Time) error  { return nil }
func (e *Endpoint) SetWriteDeadline(time.Time) error { return nil }

func (e *Endpoint) signal() {
	select {
	case e.wake <- struct{}{}:
	default:
	}
}

func (e *Endpoint) Read(p []byte) (int, error) {
	if len(p) == 0 {
		return 0, nil
	}
	for {
		e.link.w.mu.Lock()
		if e.closed {
			e.link.w.mu.Unlock()
			return 0, errors.New("simnet: use of closed connection")
		}
		if len(e.rx) > 0 {
			c := e.rx[0]
			n := len(c)
			if n > len(p) {
				n = len(p)
			}
			if e.MaxRead > 0 && n > e.MaxRead {
				n = e.MaxRead
			}
			copy(p, c[:n])
			if n == len(c) {
				e.rx = e.rx[1:]
			} else {
				e.rx[0] = c[n:]
			}
			e.Reads++
			e.link.w.mu.Unlock()
			return n, nil
		}
		if e.rxErr != nil {
			err := e.rxErr
			e.link.w.mu.Unlock()
			return 0, err
		}
		if e.rxEOF {
			e.link.w.mu.Unlock()
			return 0, io.EOF
		}
		e.link.w.mu.Unlock()
		<-e.wake
	}
}

func (e *Endpoint) Write(p []byte) (int, error) {
	b := append([]byte(nil), p...)
	now := time.Now()
	e.link.w.mu.Lock()
	if e.closed {
		e.WriteAfterClose++
		e.link.w.mu.Unlock()
		return 0, errors.New("simnet: write on closed connection")
	}
	e.Written = append(e.Written, b)
	e.WrittenAt = append(e.WrittenAt, now)
	cb := e.OnWrite
	if !e.dead {
		e.out = append(e.out, chunk{b: b, due: now.Add(e.link.w.Latency + e.stalled), at: now})
	}
	pump := e.pumpCh
	e.link.w.mu.Unlock()
	if cb != nil {
		cb(e, b)
	}
	kick(pump)
	return len(p), nil
}

func kick(ch chan struct{}) {
	if ch != nil {
		select {
		case ch <- struct{}{}:
		default:
		}
	}
}

// Close is a FIN: bytes written before it still reach the peer, then EOF.
func (e *Endpoint) Close() error {
	e.link.w.mu.Lock()
	if e.closed {
		e.link.w.mu.Unlock()
		return nil
	}
	e.closed = true
	e.ClosedAt = time.Now()
	e.outFIN = true
	pump := e.pumpCh
	cb := e.OnClose
	if pump == nil && !e.dead {
		// driver link: the driver sees outFIN via Closed(); nothing to deliver.
	}
	e.link.w.mu.Unlock()
	e.signal()
	kick(pump)
	if cb != nil {
		cb(e)
	}
	return nil
}

// pump delivers this endpoint's writes to the peer after the latency, in order.
func (e *Endpoint) pump() {
	for {
		e.link.w.mu.Lock()
		if e.dead {
			e.link.w.mu.Unlock()
			return
		}
		if len(e.out) == 0 {
			if e.outFIN {
				e.peer.rxEOF = true
				e.link.w.mu.Unlock()
				e.peer.signal()
				return
			}
			e.link.w.mu.Unlock()
			<-e.pumpCh
			continue
		}
		c := e.out[0]
		wait := time.Until(c.due)
		if wait > 0 {
			e.link.w.mu.Unlock()
			time.Sleep(wait)
			continue
		}
		e.out = e.out[1:]
		e.peer.rx = append(e.peer.rx, c.b)
		e.link.w.mu.Unlock()
		e.peer.signal()
	}
}

// ---- driver-side operations (called on the driver goroutine at quiescence) ----

// Feed makes b readable by the endpoint's owner as one chunk.
func (e *Endpoint) Feed(b []byte) {
	e.link.w.mu.Lock()
	e.rx = append(e.rx, append([]byte(nil), b...))
	e.link.w.mu.Unlock()
	e.signal()
}

// FeedEOF ends the owner's read side after what was fed; err==nil means io.EOF.
func (e *Endpoint) FeedEOF(err error) {
	e.link.w.mu.Lock()
	if err != nil {
		e.rxErr = err
	} else {
		e.rxEOF = true
	}
	e.link.w.mu.Unlock()
	e.signal()
}

// TakeOut removes and returns the writes not yet delivered (driver links: the driver receives).
func (e *Endpoint) TakeOut() [][]byte {
	e.link.w.mu.Lock()
	defer e.link.w.mu.Unlock()
	var r [][]byte
	for _, c := range e.out {
		r = append(r, c.b)
	}
	e.out = nil
	return r
}

// TakeOutTimed is TakeOut plus the simulated instant of each write.
func (e *Endpoint) TakeOutTimed() ([][]byte, []time.Time) {
	e.link.w.mu.Lock()
	defer e.link.w.mu.Unlock()
	var r [][]byte
	var t []time.Time
	for _, c := range e.out {
		r = append(r, c.b)
		t = append(t, c.at)
	}
	e.out = nil
	return r, t
}

func (e *Endpoint) IsClosed() bool {
	e.link.w.mu.Lock()
	defer e.link.w.mu.Unlock()
	return e.closed
}

func (e *Endpoint) Unread() int {
	e.link.w.mu.Lock()
	defer e.link.w.mu.Unlock()
	n := 0
	for _, c := range e.rx {
		n += len(c)
	}
	return n
}

func (e *Endpoint) InFlight() int {
	e.link.w.mu.Lock()
	defer e.link.w.mu.Unlock()
	n := 0
	for _, c := range e.out {
		n += len(c.b)
	}
	return n
}

func (e *Endpoint) NumWritten() int {
	e.link.w.mu.Lock()
	defer e.link.w.mu.Unlock()
	return len(e.Written)
}

// SetDead makes the endpoint swallow further writes (half-open link: the peer hears nothing).
func (e *Endpoint) SetDead() {
	e.link.w.mu.Lock()
	e.dead = true
	e.out = nil
	pump := e.pumpCh
	e.link.w.mu.Unlock()
	kick(pump)
}

// Stall delays everything written on this endpoint from now on by d (in addition to latency).
func (e *Endpoint) Stall(d time.Duration) {
	e.link.w.mu.Lock()
	e.stalled = d
	e.link.w.mu.Unlock()
}

// Cut severs a pumped link. Of each direction's in-flight bytes a prefix of keepA (written by A)
// resp. keepB bytes still arrives, the rest is lost; then both owners read EOF (or rerr when set).
// Returns the in-flight byte counts before the cut.
func (l *Link) Cut(keepA, keepB int, rerr error) (int, int) {
	l.w.mu.Lock()
	if l.IsCut {
		l.w.mu.Unlock()
		return 0, 0
	}
	l.IsCut = true
	l.CutAt = time.Now()
	fa, fb := 0, 0
	for _, c := range l.A.out {
		fa += len(c.b)
	}
	for _, c := range l.B.out {
		fb += len(c.b)
	}
	flush := func(e *Endpoint, keep int) {
		for _, c := range e.out {
			if keep <= 0 {
				break
			}
			b := c.b
			if len(b) > keep {
				b = b[:keep]
			}
			keep -= len(b)
			e.peer.rx = append(e.peer.rx, b)
		}
		e.out = nil
		e.dead = true
		if rerr != nil {
			e.peer.rxErr = rerr
		} else {
			e.peer.rxEOF = true
		}
	}
	flush(l.A, keepA)
	flush(l.B, keepB)
	pa, pb := l.A.pumpCh, l.B.pumpCh
	l.w.mu.Unlock()
	kick(pa)
	kick(pb)
	l.A.signal()
	l.B.signal()
	return fa, fb
}
