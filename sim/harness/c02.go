package harness

import (
	"strings"
	"bytes"
	"errors"
	"fmt"
	"os"
	"sort"
	"strconv"
	"sync"
	"sync/atomic"
	"time"

	"github.com/anishathalye/porcupine"
	"github.com/quickfixgo/quickfix/verifsim/simnet"
	"github.com/quickfixgo/quickfix/verifsim/simos"
	"github.com/quickfixgo/quickfix/verifsim/simsync"

	"verifsim/wire"
)

// C02 — outbound messages are numbered consecutively and persisted before sending, whichever
// goroutines submit them; no first-time message inside a replay.
//
// Interleaving mode: the scheduler of verifsim/simsync is installed. The session goroutine and the
// application sender goroutines are controlled tasks: they park at every (cooperative) lock
// operation, after every blocking select and at every harness seam in the send path; exactly one
// task runs at a time and the driver's seeded chooser decides which (PCT-style: most steps
// continue the running task, with a per-run context-switch probability).

func init() {
	Register(&Property{ID: "C02", Run: runC02,
		Rule: "one real engine logged on to an honest stub peer; 1-4 application sender goroutines with 1-6 SendToTarget calls each, interleaved under the seeded cooperative scheduler with engine-generated traffic on the session goroutine (TestRequest->Heartbeat, bad message->Reject, ResendRequest->replay, heartbeat timer, inbound application traffic); context-switch probability 2-50% per run; memory/file/SQL stores; persistence on/off. Invariants (i)-(v) over the store-call stream and the wire, plus porcupine on the SendToTarget history against a sequencer model; in a third of the runs the (re)logon handshake itself runs under the scheduler (both roles; ResetOnLogon, RefreshOnLogon, solicited/unsolicited ResetSeqNumFlag); peer Logout while senders are active; faults: the store refuses number-assigning writes, the simulated disk fails a write/sync inside a save (file store, also short writes); SQL statements outside transactions are scheduling points; epoch-aware judge, durable counter compared after a refresh; a Logon inside the session as a stimulus; the application sending from inside FromAdmin callbacks. Non-trivial: at least two tasks were interleaved inside the send path (a context switch while another task was parked mid-send); distinct: canonical trace hash; interleavings counted as distinct context-switch sequences"})
}

type c02op struct {
	task   string
	invoke int
	ret    int
	seq    int // number assigned (from ToApp/ToAdmin in that task), -1 if none
	err    string
}

var schedTrace = os.Getenv("VERIF_SCHEDTRACE") != ""

func runC02(env *Env, tier string) {
	ch := env.Ch
	c := DrawBaseCfg(env)
	c.HeartBtInt = 30
	c.PersistOff = ch.Chance("persistoff", 1, 6)
	switch ch.Weighted("store", []int{5, 3, 2}) {
	case 1:
		c.Store, c.StoreDir = "file", "/store/c02"
	case 2:
		c.Store = "sql"
		dsn, keeper, err := NewSQLDatabase()
		if err != nil {
			env.Fatalf("sqlite: %v", err)
		}
		env.OnCleanup(func() { keeper.Close() })
		c.StoreDir = dsn
	}
	// In a share of the runs the (re)logon itself happens under the scheduler, racing with the senders:
	// with ResetOnLogon or a ResetSeqNumFlag the store is reset while sends are in progress.
	logonRace := ch.Chance("logonrace", 1, 3)
	if logonRace {
		c.ResetOnLogon = ch.Chance("resetonlogon", 1, 3)
		// RefreshOnLogon re-reads the store from its backing file/database while senders may be active
		c.RefreshOnLogon = c.Store != "memory" && ch.Chance("refreshonlogon", 1, 3)
	}
	s := StartSut(env, c)
	p := s.P
	a := NewAdv(s, 30, AdvOpts{HonestLogon: true})
	if !a.ensureSession() {
		env.Fatalf("logon failed")
	}
	// some history so that ResendRequests have something to replay
	for k := 2 + ch.Choose("history", 4); k > 0; k-- {
		s.E.Send("D", AppBody(fmt.Sprintf("h%d", k)))
		env.Settle()
	}
	p.Collect()
	histEnd := a.engS() - 1
	raceReset := false
	if logonRace {
		raceReset = c.BeginString >= "FIX.4.1" && ch.Chance("raceresetflag", 1, 2)
		p.Drop()
		p.EP = nil
		env.Stat("probe_logon_under_scheduler")
	}
	startN := env.EventN()

	// In a share of the runs the store refuses some of the writes that assign an outbound number.
	storeFaults := ch.Chance("storefaults", 1, 5)
	if storeFaults {
		failAt := map[int]bool{}
		for k := 1 + ch.Choose("nstorefaults", 3); k > 0; k-- {
			failAt[ch.Choose("storefaultat", 24)] = true
		}
		var idx atomic.Int32
		s.E.SF.Fail = func(op string, n int) error {
			if op == "IncrTarget" {
				return nil // outbound numbering is this check's subject
			}
			if failAt[int(idx.Add(1))-1] {
				env.Stat("fault_store_write_refused")
				return fmt.Errorf("injected: store refuses %s %d", op, n)
			}
			return nil
		}
		env.OnCleanup(func() { s.E.SF.Fail = nil })
	}
	if ch.Chance("sendfromcallback", 1, 4) {
		// the application answers administrative messages from inside the callback (on the session's
		// goroutine): the message is numbered and queued while the session is in the middle of handling
		// the message it answers
		cbN := 0
		s.E.App.OnCall = func(ac AppCall) {
			if ac.Kind == "FromAdmin" && (ac.Type == "A" || ac.Type == "1") && s.E.App.LoggedOn() {
				cbN++
				env.Stat("probe_send_from_callback")
				s.E.Send("D", AppBody(fmt.Sprintf("cb%d", cbN)))
			}
		}
	}
	// ---- interleaving mode on ----
	sched := simsync.NewScheduler()
	sched.AutoSites["session.go:run"] = "session"
	simsync.Install(sched)
	currentSched = sched
	switchPct := []int{10, 2, 5, 25, 50}[ch.Choose("switchpct", 5)]
	env.Cfg["switch_pct"] = switchPct

	// file store: the disk fails somewhere inside some of the sends (drawn up front, armed by the sender)
	type diskFault struct{ op, short int }
	anyDiskFault := false
	diskFaults := map[string][]diskFault{}
	nsenders := 1 + ch.Choose("senders", 4)
	var opsMu sync.Mutex
	var ops []c02op
	var running atomic.Int32
	for k := 0; k < nsenders; k++ {
		calls := 1 + ch.Choose("calls", 6)
		name := fmt.Sprintf("sender-%d", k)
		if c.Store == "file" && !c.PersistOff && ch.Chance("diskfaults", 1, 4) {
			df := make([]diskFault, calls)
			for j := range df {
				if ch.Chance("diskfault", 1, 3) {
					df[j].op = 1 + ch.Choose("diskfaultop", 6)
					if ch.Chance("shortwrite", 1, 2) {
						df[j].short = 1 + ch.Choose("shortbytes", 12)
					}
				}
			}
			diskFaults[name] = df
			anyDiskFault = true
		}
		running.Add(1)
		go func() {
			simsync.Register(name)
			defer func() {
				running.Add(-1)
				simsync.Unregister()
			}()
			simsync.Yield("sender:start")
			for j := 0; j < calls; j++ {
				id := fmt.Sprintf("%s.%d", name, j)
				inv := env.Rec("task:"+name, "invoke", id, true)
				if df := diskFaults[name]; j < len(df) && df[j].op > 0 {
					simos.Current().ArmWriteFault(df[j].op, simos.Fault{Err: errors.New("injected: input/output error"), Short: df[j].short})
				}
				err := s.E.Send("D", AppBody(id))
				if df := diskFaults[name]; j < len(df) && df[j].op > 0 {
					if !simos.Current().DisarmWriteFault() {
						env.Stat("fault_disk_write_error_in_save")
					}
				}
				ret := env.Rec("task:"+name, "return", id, true)
				o := c02op{task: name, invoke: inv, ret: ret, seq: -1}
				if err != nil {
					o.err = err.Error()
				}
				opsMu.Lock()
				ops = append(ops, o)
				opsMu.Unlock()
				simsync.Yield("sender:between")
			}
		}()
	}
	nstim := 2 + ch.Choose("stimuli", 8)
	type stim struct {
		kind int
		a, b int
	}
	var stims []stim
	for i := 0; i < nstim; i++ {
		st := stim{kind: ch.Weighted("stim", []int{6, 4, 8, 4, 4, 1, 2})}
		if st.kind == 2 {
			st.a = 1 + ch.Choose("rrb", histEnd+2)
			st.b = []int{0, st.a + ch.Choose("rrlen", 4)}[ch.Choose("rre", 2)]
		}
		stims = append(stims, st)
	}
	if logonRace {
		// the connect and the Logon are the first two stimuli
		if c.Initiator {
			stims = append([]stim{{kind: 12}, {kind: 13}}, stims...)
		} else {
			stims = append([]stim{{kind: 10}, {kind: 11}}, stims...)
		}
	}
	var switches []string
	var rrNs []int
	waited := 0
	interleaved := false
	last := ""
	deadlock := false
	for step := 0; step < 6000; step++ {
		env.Settle()
		parked := sched.Parked()
		sessionParked := false
		for _, t := range sched.AllParked() {
			if t.Name == "session" {
				sessionParked = true
			}
		}
		nopt := len(parked)
		stimOK := !sessionParked && len(stims) > 0 && (p.Connected() || stims[0].kind == 10 || stims[0].kind == 12)
		if stimOK {
			nopt++
		}
		if nopt == 0 {
			if running.Load() > 0 && len(sched.AllParked()) > 0 {
				deadlock = true
			}
			break
		}
		pick := -1
		if last != "" && ch.Choose("switch", 100) >= switchPct {
			for i, t := range parked {
				if t.Name == last {
					pick = i
				}
			}
		}
		if pick < 0 {
			pick = ch.Choose("pick", nopt)
		}
		if schedTrace {
			var d []string
			for _, o := range sched.AllParked() {
				d = append(d, fmt.Sprintf("%s@%s(%s)", o.Name, o.Site, o.Kind))
			}
			env.Rec("sched", "pick", fmt.Sprintf("%d/%d stimOK=%v all=%v", pick, nopt, stimOK, d), false)
		}
		if pick < len(parked) {
			t := parked[pick]
			if t.Name != last {
				switches = append(switches, t.Name+"@"+t.Site)
				if len(parked) > 1 || sessionParked {
					for _, o := range sched.AllParked() {
						if o.Name != t.Name && o.Kind != "wake" && o.Site != "sender:start" && o.Site != "sender:between" {
							interleaved = true
						}
					}
				}
			}
			last = t.Name
			sched.Resume(t)
			continue
		}
		// a stimulus for the (idle) session
		st := stims[0]
		stims = stims[1:]
		if st.kind < 10 {
			p.OutSeq = a.engT()
		}
		switch st.kind {
		case 10: // transport connection (the acceptor's connection handler waits for the first message)
			ep, err := s.W.DriverDial(c.Port)
			if err != nil {
				env.Fatalf("dial: %v", err)
			}
			p.EP = ep
			p.Conn++
			env.Rec("peer>:stim", "connect", "", true)
		case 11: // the Logon, optionally asking for a sequence reset
			if raceReset || c.ResetOnLogon {
				p.OutSeq = 1
			} else {
				p.OutSeq = a.engT()
			}
			b, _ := p.Build("A", p.LogonBody(c.HeartBtInt, raceReset), MsgOpt{})
			p.EP.Feed(b)
			env.Rec("peer>:stim", "logon", fmt.Sprintf("reset=%v", raceReset), true)
			// The connection handler first hands the connection to the session (admin channel) and then
			// the Logon (message channel). The session takes the connection before any sender runs again:
			// otherwise a sender's wake-up signal and the Logon would both be ready for the session's
			// select at once and Go, not the simulator, would choose (rule R1).
			for k := 0; k < 50; k++ {
				env.Settle()
				var st *simsync.Task
				for _, t := range sched.AllParked() {
					if t.Name == "session" {
						st = t
					}
				}
				if st == nil || (k > 0 && st.Kind == "wake") {
					break
				}
				sched.Resume(st)
			}
		case 12: // time passes until the engine dials again; every advance ends at the first park
			select {
			case <-sched.ParkSignal():
			default:
			}
			select {
			case <-time.After(time.Second):
			case <-sched.ParkSignal():
			}
			env.Settle()
			// The dialling goroutine talks to the session twice (is it session time? then: here is the
			// connection). The session runs alone until it has taken the second message, so that a sender's
			// wake-up signal and the connection are never both ready for its select (rule R1).
			var live *simnet.Endpoint
			for k := 0; k < 50; k++ {
				for _, o := range s.W.TakeDialled() {
					if !o.IsClosed() {
						live = o
					}
				}
				var st *simsync.Task
				for _, t := range sched.AllParked() {
					if t.Name == "session" {
						st = t
					}
				}
				if st == nil || (live != nil && st.Kind == "wake") {
					break
				}
				sched.Resume(st)
				env.Settle()
			}
			if live != nil {
				p.EP = live
				p.Conn++
				env.Rec("peer>:stim", "accepted", "", true)
			} else {
				waited++
				if waited > 40 {
					env.Fatalf("the initiator did not dial again")
				}
				stims = append([]stim{{kind: 12}}, stims...)
			}
		case 13: // the answer to the engine's Logon, optionally with an unsolicited ResetSeqNumFlag
			p.Collect()
			lg, ok := LastOfType(p.Recv, "A")
			reset := raceReset || (ok && lg.Conn == p.Conn && lg.Str(141) == "Y")
			if reset {
				p.OutSeq = 1
			} else {
				p.OutSeq = a.engT()
			}
			b, _ := p.Build("A", p.LogonBody(c.HeartBtInt, reset), MsgOpt{})
			p.EP.Feed(b)
			env.Rec("peer>:stim", "logon-answer", fmt.Sprintf("reset=%v", reset), true)
		case 0: // test request -> heartbeat on the session goroutine
			b, _ := p.Build("1", []wire.Field{wire.F(112, "T"+p.NextID())}, MsgOpt{})
			p.EP.Feed(b)
			env.Rec("peer>:stim", "testrequest", "", true)
		case 1: // bad message -> reject
			body := AppBody(p.NextID())
			body[len(body)-1].Val = ""
			b, _ := p.Build("D", body, MsgOpt{})
			p.EP.Feed(b)
			env.Rec("peer>:stim", "badmessage", "", true)
		case 2: // resend request -> replay
			b, _ := p.Build("2", []wire.Field{wire.FI(7, st.a), wire.FI(16, st.b)}, MsgOpt{})
			p.EP.Feed(b)
			rrNs = append(rrNs, env.Rec("peer>:stim", "resendrequest", fmt.Sprintf("%d..%d", st.a, st.b), true))
			env.Stat("probe_replay_during_sends")
		case 3: // inbound application message
			b, _ := p.Build("D", AppBody(p.NextID()), MsgOpt{})
			p.EP.Feed(b)
			env.Rec("peer>:stim", "app", "", true)
		case 6: // a Logon inside the session (in sequence, no reset): an acceptor answers it with a Logon of its own
			engineLoggingOut := false
			if all := s.CL.All(); len(all) > 0 {
				ws, _ := all[len(all)-1].Snapshot()
				for _, w := range ws {
					if w.Msg.Type() == "5" {
						engineLoggingOut = true
					}
				}
			}
			if c.ResetOnLogon || engineLoggingOut {
				// (a Logon that resets, or one arriving after the engine's Logout, is not this check's subject)
				b, _ := p.Build("0", nil, MsgOpt{})
				p.EP.Feed(b)
				env.Rec("peer>:stim", "heartbeat", "", true)
				break
			}
			b, _ := p.Build("A", p.LogonBody(c.HeartBtInt, false), MsgOpt{})
			p.EP.Feed(b)
			env.Rec("peer>:stim", "logon-in-session", "", true)
			env.Stat("probe_logon_inside_session_during_sends")
		case 5: // the peer logs out: the engine answers with its Logout and ends the connection while senders are active
			b, _ := p.Build("5", nil, MsgOpt{})
			p.EP.Feed(b)
			env.Rec("peer>:stim", "logout", "", true)
			env.Stat("probe_logout_during_sends")
		case 4: // time: heartbeat timer; the advance ends at the first park
			select {
			case <-sched.ParkSignal():
			default:
			}
			select {
			case <-time.After(time.Duration(c.HeartBtInt)*time.Second + 700*time.Millisecond):
			case <-sched.ParkSignal():
			}
			// keep the peer timer quiet afterwards
			env.Rec("peer>:stim", "advance", "", true)
			env.Stat("probe_timer_during_sends")
		}
		last = ""
	}
	// ---- interleaving mode off ----
	sched.Drain()
	simsync.Install(nil)
	currentSched = nil
	env.Settle()
	p.Collect()
	if deadlock {
		var d []string
		for _, t := range sched.AllParked() {
			d = append(d, fmt.Sprintf("%s@%s(%s)", t.Name, t.Site, t.Kind))
		}
		env.Violate("C02/never-transmitted/deadlock", "tasks blocked forever on engine locks: %v", d)
		return
	}
	if running.Load() > 0 {
		env.Fatalf("sender tasks did not finish (%d left)", running.Load())
	}
	if sched.Anon > 0 {
		env.Stat("harness_anonymous_tasks")
	}
	env.StatN("probe_context_switches", len(switches))
	env.State(fmt.Sprintf("switches=%d", min(len(switches), 12)))
	h := uint64(14695981039346656037)
	for _, sw := range switches {
		for i := 0; i < len(sw); i++ {
			h = (h ^ uint64(sw[i])) * 1099511628211
		}
		h = (h ^ 0xff) * 1099511628211
	}
	env.State("il:" + strconv.FormatUint(h%1000003, 36))

	// ---- a slow socket: the connection takes the engine's writes one at a time, when the driver says so, while
	// the application keeps sending. What reaches the wire must still be every number, once, in order.
	if p.Connected() && s.E.App.LoggedOn() && !env.Failed() && ch.Chance("slowsocket", 1, 3) {
		env.QuietWindow(50 * time.Millisecond)
		send := func(k int) {
			for ; k > 0; k-- {
				id := "slow-" + p.NextID()
				inv := env.Rec("task:driver", "invoke", id, true)
				err := s.E.Send("D", AppBody(id))
				env.Settle()
				ret := env.Rec("task:driver", "return", id, true)
				o := c02op{task: "", invoke: inv, ret: ret, seq: -1}
				if err != nil {
					o.err = err.Error()
				}
				ops = append(ops, o)
			}
		}
		p.EP.GateWrites()
		send(1 + ch.Choose("slowfirst", 3))
		for round := 1 + ch.Choose("slowrounds", 3); round > 0; round-- {
			p.EP.ReleaseWrites(1 + ch.Choose("slowrelease", 2))
			env.Settle()
			send(1 + ch.Choose("slowmore", 3))
		}
		p.EP.UngateWrites()
		env.Settle()
		env.Stat("fault_slow_socket_writes_released_one_at_a_time")
	}
	judgeC02(env, s, c, ops, startN, rrNs, storeFaults || anyDiskFault, logonRace)
	env.Nontrivial = interleaved
}

// judgeC02 evaluates invariants (i)-(vi) over everything recorded after event startN. Sequence-number
// epochs are delimited by the store's Reset calls.
func judgeC02(env *Env, s *Sut, c EngineCfg, ops []c02op, startN int, rrNs []int, storeFaults, logonRace bool) {
	type sv struct {
		n, num, epoch int
		msg           []byte
		task          string
	}
	var calls []StoreCall
	for _, sr := range s.E.SF.All {
		calls = append(calls, sr.Snapshot()...)
	}
	sort.Slice(calls, func(i, j int) bool { return calls[i].N < calls[j].N })
	var saves []sv
	var resetNs []int
	epoch := 0
	// Numbers whose assigning write failed (injected disk error), and the successful refreshes: the failed
	// write may have reached the counter file all the same (written, not synced), and a later refresh then
	// legitimately continues one number further on.
	failedAt := map[int][]int{}
	var refreshNs []int
	anyFailedReset := false
	anyStoreError := false
	failedReset := 0 // a Reset that returned an error (injected disk fault) may or may not have taken effect
	for _, call := range calls {
		if call.Err != "" {
			anyStoreError = true
			if call.Op == "Reset" {
				failedReset = call.N
				anyFailedReset = true
			}
			if call.Op == "SaveIncr" {
				failedAt[call.A] = append(failedAt[call.A], call.N)
			}
			if call.Op == "Refresh" {
				// a refresh that failed half-way (injected disk error) leaves the store with closed files
				// and reset counters until the next successful one (see DESIGN 8.7): like a failed Reset it
				// may or may not start the numbering over
				anyFailedReset = true
				failedReset = call.N
				refreshNs = append(refreshNs, call.N) // it may have re-read the counter files before it failed
			}
			continue
		}
		num := -1
		switch call.Op {
		case "Refresh":
			refreshNs = append(refreshNs, call.N)
		case "Reset":
			epoch++
			resetNs = append(resetNs, call.N)
			failedReset = 0
		case "SaveIncr":
			num = call.A
		case "IncrSender":
			num = call.A - 1
		}
		if num < 0 {
			continue
		}
		if failedReset != 0 {
			if num == 1 {
				epoch++
				resetNs = append(resetNs, failedReset)
			}
			failedReset = 0
		}
		if call.Op == "SaveIncr" {
			saves = append(saves, sv{call.N, num, epoch, call.Msg, call.Task})
		} else {
			saves = append(saves, sv{call.N, num, epoch, nil, call.Task})
		}
	}
	epochAt := func(n int) int {
		e := 0
		for _, r := range resetNs {
			if r < n {
				e++
			}
		}
		return e
	}
	// (i) the numbers handed out in one epoch are n, n+1, n+2, ... without gap or repeat; a new epoch starts at 1
	for i := 1; i < len(saves); i++ {
		if saves[i].epoch == saves[i-1].epoch {
			skippedAfterFailedWrite := false
			if saves[i].num == saves[i-1].num+2 {
				for _, fn := range failedAt[saves[i-1].num+1] {
					for _, rn := range refreshNs {
						if fn > saves[i-1].n && fn < rn && rn < saves[i].n {
							skippedAfterFailedWrite = true
						}
					}
				}
			}
			if saves[i].num != saves[i-1].num+1 && !skippedAfterFailedWrite {
				env.Violate("C02/numbering", "numbers handed out in store-call order: ... %d (task %s), then %d (task %s)", saves[i-1].num, saves[i-1].task, saves[i].num, saves[i].task)
				return
			}
		} else if saves[i].num != 1 {
			env.Violate("C02/numbering", "first number handed out after a reset is %d (task %s), the previous epoch ended at %d", saves[i].num, saves[i].task, saves[i-1].num)
			return
		}
	}
	type key struct{ epoch, num int }
	savedAt := map[key]sv{}
	for _, x := range saves {
		savedAt[key{x.epoch, x.num}] = x
	}
	// wire
	for _, cr := range s.CL.All() {
		ws, _ := cr.Snapshot()
		lastFirst := 0
		lastEpoch := -1
		replaySeen := false
		logoutWritten := false
		for _, w := range ws {
			if !w.OK {
				continue
			}
			m := w.Msg
			if m.PossDup() {
				replaySeen = true
				continue
			}
			n := m.Seq()
			ep := epochAt(w.N)
			// (vii) nothing is transmitted for the first time behind the engine's own Logout (C08's clause, which
			// needs this check's interleavings to be exercised)
			if logoutWritten && !m.IsAdmin() {
				env.Violate("C02/app-after-logout", "application message 34=%d transmitted for the first time on connection %d after the engine's Logout", m.Seq(), cr.ID)
				return
			}
			if m.Type() == "5" {
				logoutWritten = true
			}
			// (ii) first-time transmissions carry increasing numbers within an epoch
			if ep != lastEpoch {
				lastFirst = 0
				lastEpoch = ep
			}
			if n <= lastFirst {
				env.Violate("C02/wire-order", "first-time transmission 34=%d after 34=%d on connection %d", n, lastFirst, cr.ID)
				return
			}
			lastFirst = n
			// (iv) persisted, byte-identical, before it reached the wire
			if !c.PersistOff {
				x, ok := savedAt[key{ep, n}]
				if !ok {
					env.Violate("C02/sent-unpersisted", "number %d reached the wire without having been saved in the current sequence-number epoch (a reset happened in between?)", n)
					return
				}
				if x.n > w.N {
					env.Violate("C02/persist-after-send", "number %d reached the wire (event %d) before its save completed (event %d)", n, w.N, x.n)
					return
				}
				if !bytes.Equal(x.msg, w.Frame) {
					env.Violate("C02/persisted-bytes-differ", "number %d: bytes on the wire differ from the bytes saved under it\n wire  %q\n saved %q", n, clip(w.Frame), clip(x.msg))
					return
				}
			}
		}
		// (v) no first-time message between the replayed messages answering one ResendRequest
		if replaySeen {
			type pos struct {
				n   int
				dup bool
				seq int
			}
			var seqv []pos
			for _, w := range ws {
				if w.OK {
					seqv = append(seqv, pos{w.N, w.Msg.PossDup(), w.Msg.Seq()})
				}
			}
			for i := 1; i+1 < len(seqv); i++ {
				if seqv[i].dup {
					continue
				}
				prevDup, nextDup := -1, -1
				for j := i - 1; j >= 0; j-- {
					if seqv[j].dup {
						prevDup = j
						break
					}
				}
				for j := i + 1; j < len(seqv); j++ {
					if seqv[j].dup {
						nextDup = j
						break
					}
				}
				if prevDup < 0 || nextDup < 0 {
					continue
				}
				sameReply := true
				for _, rn := range rrNs {
					if rn > seqv[prevDup].n && rn < seqv[nextDup].n {
						sameReply = false
					}
				}
				if sameReply && seqv[nextDup].seq > seqv[prevDup].seq {
					env.Violate("C02/live-traffic-inside-replay", "first-time message 34=%d was written between replayed messages 34=%d and 34=%d of the same reply", seqv[i].seq, seqv[prevDup].seq, seqv[nextDup].seq)
					return
				}
			}
		}
	}
	// (iii) while the session stays logged on every assigned number is transmitted: judged for the
	// numbers assigned after the last logon completed, if the session is still logged on at the end
	if s.P.Connected() {
		onWire := map[key]bool{}
		for _, cr := range s.CL.All() {
			ws, _ := cr.Snapshot()
			for _, w := range ws {
				if w.OK && !w.Msg.PossDup() {
					onWire[key{epochAt(w.N), w.Msg.Seq()}] = true
				}
			}
		}
		lastLogon, loggedOut := startN, logonRace // (the logon under the scheduler may never complete)
		for _, ac := range s.E.App.Snapshot() {
			if ac.N > startN && ac.Kind == "OnLogon" {
				if loggedOut || lastLogon == startN {
					// (a second logon notification without a logout in between - a Logon inside the
					// session - does not begin a new logged-on period)
					lastLogon = ac.N
				}
				loggedOut = false
			}
			if ac.N > startN && ac.Kind == "OnLogout" {
				loggedOut = true
			}
		}
		// once the engine has sent its Logout the session is logging out, not logged on: what is numbered
		// after that (a Heartbeat answering a TestRequest, say) need not be transmitted
		logoutSentAt := int(^uint(0) >> 1)
		for _, cr := range s.CL.All() {
			ws, _ := cr.Snapshot()
			for _, w := range ws {
				if w.OK && w.N > lastLogon && w.Msg.Type() == "5" && !w.Msg.PossDup() && w.N < logoutSentAt {
					logoutSentAt = w.N
				}
			}
		}
		if !loggedOut {
			for _, x := range saves {
				if x.n > lastLogon && x.n < logoutSentAt && !onWire[key{x.epoch, x.num}] {
					env.Violate("C02/never-transmitted", "number %d was assigned (task %s) but never reached the wire although the session stayed logged on", x.num, x.task)
					return
				}
			}
		}
	}
	// store agrees at quiescence (not judged after a Reset that failed half-way under an injected disk error:
	// what the store then holds is neither the old nor the new epoch, and no listed statement says which)
	// (nor after any other store call failed under an injected error: the numbers handed out and what reached
	// the wire are judged above; what exactly a store holds after it reported a failure is C16/C17's subject)
	if st := s.E.Store(); st != nil && len(saves) > 0 && !anyFailedReset && !anyStoreError {
		last := saves[len(saves)-1]
		if last.epoch == len(resetNs) {
			if got := st.inner.NextSenderMsgSeqNum(); got != last.num+1 {
				env.Violate("C02/next-sender", "next outbound number %d, highest handed out %d", got, last.num)
				return
			}
		}
		// the backing file/database agrees too: after a refresh (counters and index re-read from the backing
		// store) the next outbound number is still one past the highest number handed out
		if last.epoch == len(resetNs) && c.Store != "memory" && !storeFaults {
			if err := st.inner.Refresh(); err != nil {
				env.Violate("C02/next-sender-durable", "refreshing the store from its backing file/database fails: %v", err)
				return
			}
			if got := st.inner.NextSenderMsgSeqNum(); got != last.num+1 {
				env.Violate("C02/next-sender-durable", "after a refresh from the backing file/database the next outbound number is %d, highest handed out %d", got, last.num)
				return
			}
			env.Stat("probe_durable_counter_checked")
		}
		if !c.PersistOff {
			for _, x := range saves {
				if x.n <= startN || x.msg == nil || x.epoch != len(resetNs) {
					continue
				}
				got, err := st.inner.GetMessages(x.num, x.num)
				if err != nil || len(got) != 1 || !bytes.Equal(got[0], x.msg) {
					env.Violate("C02/not-retrievable", "GetMessages(%d,%d) does not return the bytes sent under that number (err %v, %d results)", x.num, x.num, err, len(got))
					return
				}
			}
		}
	}
	// (vi) porcupine: SendToTarget history against a sequencer
	apps := s.E.App.Snapshot()
	var hist []porcupine.Operation
	for i := range ops {
		o := &ops[i]
		for _, ac := range apps {
			if ac.Kind == "ToApp" && !ac.PossDup && ac.N > o.invoke && ac.N < o.ret && ac.Task == o.task {
				o.seq = ac.Seq
			}
		}
		if o.err != "" || o.seq < 0 {
			continue
		}
		hist = append(hist, porcupine.Operation{ClientId: i, Input: 0, Call: int64(o.invoke), Output: o.seq, Return: int64(o.ret)})
	}
	// engine-generated first-time messages are operations of the session client
	cid := len(ops)
	for _, ac := range apps {
		fromCallback := ac.Kind == "ToApp" && strings.HasPrefix(ac.ID, "cb") // sent by the application from inside a callback
		if (ac.Kind == "ToAdmin" || fromCallback) && !ac.PossDup && ac.N > startN && ac.Type != "4" {
			if x, ok := savedAt[key{epochAt(ac.N), ac.Seq}]; ok && x.n > ac.N {
				hist = append(hist, porcupine.Operation{ClientId: cid, Input: 0, Call: int64(ac.N), Output: ac.Seq, Return: int64(x.n)})
			}
		}
	}
	resetsInWindow := 0
	for _, r := range resetNs {
		if r > startN {
			resetsInWindow++
		}
	}
	// (with refused writes a number is handed out again, to whoever comes next: the per-client attribution of
	// engine-generated messages below would be ambiguous, and (i)-(iv) already cover those runs)
	if len(hist) > 0 && len(hist) <= 40 && resetsInWindow == 0 && !storeFaults {
		first := -1
		for _, op := range hist {
			if first < 0 || op.Output.(int) < first {
				first = op.Output.(int)
			}
		}
		model := porcupine.Model{
			Init: func() interface{} { return first },
			Step: func(state, input, output interface{}) (bool, interface{}) {
				return output.(int) == state.(int), state.(int) + 1
			},
		}
		// numbers consumed by something outside the history (none expected) would show as gaps
		switch porcupine.CheckOperationsTimeout(model, hist, 10*time.Second) {
		case porcupine.Illegal:
			env.Violate("C02/not-linearizable", "the history of sends is not linearizable against a sequencer: %v", describeHist(hist))
		case porcupine.Unknown:
			env.Stat("porcupine_inconclusive")
		default:
			env.Stat("probe_porcupine_checked")
		}
	}
}

func describeHist(h []porcupine.Operation) string {
	s := ""
	for _, o := range h {
		s += fmt.Sprintf("[c%d %d..%d -> %d]", o.ClientId, o.Call, o.Return, o.Output)
	}
	return s
}
