package harness

import (
	"fmt"
	"sort"
	"strings"
	"time"

	"github.com/quickfixgo/quickfix/config"
)

// C18 — session schedules classify instants by the configured windows, AS THE SYSTEM EXHIBITS
// IT: the session goroutine reads the simulated clock every second and on every event, asks the
// schedule, and accepts or refuses connections, logs out at the end of a window, and resets the store
// when its creation time lies in an earlier window. The oracle is an independent calendar written
// from the configuration's description (wall-clock semantics in the configured zone).

func init() {
	Register(&Property{ID: "C18", Run: runC18,
		Rule: "real Acceptor configured from generated settings (daily StartTime/EndTime incl. overnight, Weekdays subsets; weekly StartDay/EndDay incl. wrap-around and equal days; TimeZone UTC, New_York, London, Lord_Howe, Kolkata, Auckland; a share of runs positioned across a DST change); clock jumps to 6-40 probe instants over 3-16 simulated days, biased to +-(2 s..20 min) around window edges, never within 2 s of an edge; at each probe a valid Logon is attempted (accepted <=> in window), some connections are held across the window's end (logged out within two ticks, not before), store resets between probes <=> different windows; daily windows with StartTime == EndTime; a quarter of the runs observe an initiator instead (it dials within one reconnect interval exactly when inside a window, also when created outside one); window edges that occur twice (end of DST) are not judged except for the reset rule. Non-trivial: at least one accepted and one refused probe; distinct: canonical trace hash"})
}

type schedCfg struct {
	weekly     bool
	start, end int // seconds of day
	weekdays   []time.Weekday
	startDay, endDay time.Weekday
	loc        *time.Location
	locName    string
	fullWeek   bool
}

var dayNames = []string{"Sunday", "Monday", "Tuesday", "Wednesday", "Thursday", "Friday", "Saturday"}
var dayShort = []string{"Sun", "Mon", "Tue", "Wed", "Thu", "Fri", "Sat"}

func (c schedCfg) dayOK(d time.Weekday) bool {
	if len(c.weekdays) == 0 {
		return true
	}
	for _, w := range c.weekdays {
		if w == d {
			return true
		}
	}
	return false
}

func tod(t time.Time) int { h, m, s := t.Clock(); return h*3600 + m*60 + s }

// in reports whether instant t lies in a window, and the local calendar date on which that window
// opened (the window's identity).
func (c schedCfg) in(t time.Time) (bool, string) {
	lt := t.In(c.loc)
	x := tod(lt)
	wd := lt.Weekday()
	date := func(daysBack int) string {
		d := time.Date(lt.Year(), lt.Month(), lt.Day()-daysBack, 12, 0, 0, 0, c.loc)
		return d.Format("2006-01-02")
	}
	if !c.weekly {
		if c.start < c.end {
			if x >= c.start && x <= c.end && c.dayOK(wd) {
				return true, date(0)
			}
			return false, ""
		}
		// overnight: opens at start on day d (d must be allowed), closes at end on day d+1
		if x >= c.start && c.dayOK(wd) {
			return true, date(0)
		}
		if x <= c.end && c.dayOK((wd+6)%7) {
			return true, date(1)
		}
		return false, ""
	}
	s := int(c.startDay)*86400 + c.start
	e := int(c.endDay)*86400 + c.end
	w := int(wd)*86400 + x
	inside := false
	if c.fullWeek {
		inside = true
	} else if s <= e {
		inside = w >= s && w <= e
	} else {
		inside = w >= s || w <= e
	}
	if !inside {
		return false, ""
	}
	back := (int(wd) - int(c.startDay) + 7) % 7
	if back == 0 && x < c.start {
		back = 7
	}
	return true, date(back)
}

// dstTag tells whether the nominal end of the window that opened on local date id (a wall-clock
// time) does not exist or exists twice in the zone on that day (DST change), which the engine's
// same-session computation (it builds the end with time.Date) cannot represent.
func (c schedCfg) dstTag(id string) string {
	open, err := time.ParseInLocation("2006-01-02", id, c.loc)
	if err != nil {
		return ""
	}
	days := 0
	if !c.weekly {
		if c.start >= c.end {
			days = 1
		}
	} else {
		days = (int(c.endDay) - int(c.startDay) + 7) % 7
		if days == 0 && c.start >= c.end {
			days = 7
		}
	}
	for i, sec := range []int{c.end, c.start} {
		dd := days
		if i == 1 { // the opening edge lies on the opening day (also when StartTime equals EndTime)
			dd = 0
		}
		d := time.Date(open.Year(), open.Month(), open.Day()+dd, 0, 0, sec, 0, c.loc)
		if tod(d) != sec {
			return "/window-edge-in-dst-gap"
		}
		for _, off := range []time.Duration{-time.Hour, time.Hour, -30 * time.Minute, 30 * time.Minute} {
			if o := d.Add(off); tod(o) == sec && o.In(c.loc).Day() == d.Day() {
				return "/window-edge-in-repeated-dst-hour"
			}
		}
	}
	return ""
}

// dstTagAt is dstTag for an instant: the tag of the window it lies in, or - for an instant outside every window -
// of a window that opened on one of the days around it (its edge may be what puts the instant outside).
func (c schedCfg) dstTagAt(t time.Time, id string) string {
	if id != "" {
		return c.dstTag(id)
	}
	lt := t.In(c.loc)
	for d := 1; d >= -8; d-- {
		day := time.Date(lt.Year(), lt.Month(), lt.Day()+d, 12, 0, 0, 0, time.UTC)
		if tag := c.dstTag(day.Format("2006-01-02")); tag != "" {
			return tag
		}
	}
	return ""
}

// c18Violate reports a violation unless the window edge involved is a wall-clock time that occurs twice on
// that day (end of daylight saving): the configuration then names two instants and the statement does not
// say which one is meant, so the run is not judged further (the caller stops the run).
func c18Violate(env *Env, fp, format string, a ...any) {
	// (Not so for the reset rule: that a session is not reset over and over while it stays inside one
	// window does not depend on which of the two instants ends it.)
	if strings.Contains(fp, "window-edge-in-repeated-dst-hour") && !strings.HasPrefix(fp, "C18/reset") {
		env.Stat("not_judged_window_edge_in_repeated_dst_hour")
		return
	}
	// One defect, one fingerprint: whichever rule notices that a window edge falls on a wall-clock time that
	// does not exist (or, for the reset rule, exists twice) on a DST day, it is the same known finding.
	for _, tag := range []string{"window-edge-in-dst-gap", "window-edge-in-repeated-dst-hour"} {
		if strings.Contains(fp, tag) {
			format = "[" + fp + "] " + format
			fp = "C18/" + tag
			break
		}
	}
	env.Violate(fp, format, a...)
}

func fmtTod(s int) string { return fmt.Sprintf("%02d:%02d:%02d", s/3600, s/60%60, s%60) }

func runC18(env *Env, tier string) {
	ch := env.Ch
	c := EngineCfg{Name: "E", InChanCap: -1, Store: "memory", BeginString: "FIX.4.2", Sender: "ENG", Target: "PEER", Port: 5001}
	c.HeartBtInt = 1000000 // no keep-alive traffic while a connection is held for hours
	if ch.Chance("filestore", 1, 4) {
		c.Store, c.StoreDir = "file", "/store/c18"
	}
	sc := schedCfg{loc: time.UTC, locName: "UTC"}
	zones := []string{"UTC", "America/New_York", "Europe/London", "Australia/Lord_Howe", "Asia/Kolkata", "Pacific/Auckland"}
	if z := ch.Choose("zone", len(zones)); z > 0 {
		loc, err := time.LoadLocation(zones[z])
		if err != nil {
			env.Fatalf("zone %s: %v", zones[z], err)
		}
		sc.loc, sc.locName = loc, zones[z]
	}
	pick := func(kind string) int {
		switch ch.Weighted(kind+"kind", []int{3, 2, 2}) {
		case 0:
			return ch.Choose(kind+"h", 24) * 3600
		case 1:
			return ch.Choose(kind+"h", 24)*3600 + ch.Choose(kind+"m", 60)*60
		}
		return ch.Choose(kind+"s", 86400)
	}
	sc.start = pick("start")
	sc.end = pick("end")
	if sc.end == sc.start {
		sc.end = (sc.start + 3600) % 86400
	}
	if ch.Chance("near", 1, 8) { // windows one or a few seconds long / short gaps
		sc.end = (sc.start + 86400 + 30 - ch.Choose("nearoff", 60)) % 86400
		if sc.end == sc.start {
			sc.end = (sc.start + 30) % 86400
		}
	}
	fullDay := ch.Chance("fullday", 1, 10)
	if fullDay {
		// StartTime == EndTime: one window per day that rolls over at that time
		sc.end = sc.start
	}
	extra := map[string]string{config.StartTime: fmtTod(sc.start), config.EndTime: fmtTod(sc.end)}
	if sc.locName != "UTC" {
		extra[config.TimeZone] = sc.locName
	}
	switch ch.Weighted("mode", []int{3, 3, 3}) {
	case 1: // weekday subset
		var names []string
		for d := 0; d < 7; d++ {
			if ch.Chance("weekday", 1, 2) {
				sc.weekdays = append(sc.weekdays, time.Weekday(d))
				if ch.Chance("short", 1, 2) {
					names = append(names, dayShort[d])
				} else {
					names = append(names, dayNames[d])
				}
			}
		}
		if len(sc.weekdays) == 0 {
			sc.weekdays = []time.Weekday{time.Saturday}
			names = []string{"Saturday"}
		}
		extra[config.Weekdays] = strings.Join(names, ",")
	case 2: // weekly
		sc.weekly = true
		sc.startDay = time.Weekday(ch.Choose("startday", 7))
		sc.endDay = time.Weekday(ch.Choose("endday", 7))
		if ch.Chance("fullweek", 1, 5) {
			// the common "one session per week" set-up: same day, same time: a week-long window that
			// rolls over at StartDay/StartTime
			sc.endDay = sc.startDay
			sc.end = sc.start
			extra[config.EndTime] = fmtTod(sc.end)
			sc.fullWeek = true
		}
		if sc.startDay == sc.endDay && sc.start == sc.end {
			// (the same set-up reached through the "StartTime == EndTime" draw)
			sc.fullWeek = true
		}
		extra[config.StartDay] = dayNames[sc.startDay]
		extra[config.EndDay] = dayShort[sc.endDay]
	}
	c.Extra = extra

	// position the clock before the engine exists (no timers yet, so this costs nothing)
	base := time.Now()
	var dstTr time.Time // the clock change a window edge was put into (zero: none)
	if ch.Chance("dst", 1, 3) {
		targets := []time.Time{
			time.Date(2000, 4, 1, 0, 0, 0, 0, time.UTC),   // US spring forward Apr 2
			time.Date(2000, 3, 25, 0, 0, 0, 0, time.UTC),  // EU spring forward / Lord Howe back Mar 26
			time.Date(2000, 10, 28, 0, 0, 0, 0, time.UTC), // EU/US autumn, Lord Howe forward Oct 29
			time.Date(2000, 9, 30, 0, 0, 0, 0, time.UTC),  // NZ forward Oct 1
			time.Date(2000, 3, 18, 0, 0, 0, 0, time.UTC),  // NZ back Mar 19
		}
		base = targets[ch.Choose("dsttarget", len(targets))]
		env.Stat("probe_positioned_near_dst_change")
		if _, tr := base.In(sc.loc).ZoneBounds(); !tr.IsZero() && tr.Sub(base) < 72*time.Hour && ch.Chance("dstedge", 1, 2) {
			// put a window edge INTO the hour the change affects: a wall-clock time that does not exist that
			// day (clocks go forward) or exists twice (clocks go back)
			_, offBefore := tr.Add(-time.Second).In(sc.loc).Zone()
			_, offAfter := tr.In(sc.loc).Zone()
			width := offAfter - offBefore
			from := tod(tr.Add(-time.Second).In(sc.loc)) + 1 // first skipped reading
			if width < 0 {
				width = -width
				from = tod(tr.In(sc.loc)) // first repeated reading
			}
			edge := (from + ch.Choose("dstedgesec", width)) % 86400
			if sc.start == sc.end {
				sc.start, sc.end = edge, edge
			} else if ch.Chance("dstedgeisend", 1, 2) {
				sc.end = edge
			} else {
				sc.start = edge
			}
			if sc.start == sc.end && !fullDay && !sc.fullWeek {
				sc.end = (sc.start + 3600) % 86400
			}
			extra[config.StartTime], extra[config.EndTime] = fmtTod(sc.start), fmtTod(sc.end)
			env.Stat("probe_window_edge_inside_dst_change")
			dstTr = tr
		}
	} else {
		base = base.Add(time.Duration(ch.Choose("startday", 7)*24+ch.Choose("starthour", 24)) * time.Hour)
	}
	time.Sleep(time.Until(base))
	// the store's creation time is an instant the schedule will be asked about: keep it away from
	// the one-second window edges like every other instant
	for k := 0; k < 10; k++ {
		in0, id0 := sc.in(time.Now())
		okEdge := true
		for _, d := range []time.Duration{-3 * time.Second, -2 * time.Second, -time.Second, time.Second, 2 * time.Second, 3 * time.Second} {
			if in1, id1 := sc.in(time.Now().Add(d)); in1 != in0 || id1 != id0 {
				okEdge = false
			}
		}
		if okEdge {
			break
		}
		time.Sleep(4 * time.Second)
	}
	base = time.Now()

	if ch.Chance("initiatorrole", 1, 4) {
		runC18Initiator(env, c, sc, extra, base)
		return
	}

	s := StartSut(env, c)
	p := s.P
	a := NewAdv(s, 30, AdvOpts{HonestLogon: true})
	startInst := time.Now()
	spanDays := 3 + ch.Choose("span", 14)
	env.Cfg["schedule"] = fmt.Sprintf("%v", extra)
	env.Cfg["span_days"] = spanDays
	env.Cfg["from"] = base.Format(time.RFC3339)

	// ---- probe instants ----
	nprobes := 6 + ch.Choose("probes", 35)
	var probes []time.Time
	for i := 0; i < nprobes; i++ {
		day := ch.Choose("probeday", spanDays)
		lt := base.In(sc.loc)
		var t time.Time
		switch ch.Weighted("probekind", []int{2, 4, 4}) {
		case 0:
			t = time.Date(lt.Year(), lt.Month(), lt.Day()+day, 0, 0, ch.Choose("probesec", 86400), 0, sc.loc)
		default:
			edge := sc.start
			if ch.Chance("atend", 1, 2) {
				edge = sc.end
			}
			delta := []int{2, 3, 5, 30, 61, 600, 1200}[ch.Choose("delta", 7)]
			if ch.Chance("before", 1, 2) {
				delta = -delta
			}
			t = time.Date(lt.Year(), lt.Month(), lt.Day()+day, 0, 0, edge+delta, 0, sc.loc)
		}
		t = t.Add(time.Duration(137+ch.Choose("ms", 700)) * time.Millisecond)
		if t.After(startInst.Add(5 * time.Second)) {
			probes = append(probes, t)
		}
	}
	if !dstTr.IsZero() {
		// ... and look at the hours around that clock change
		for _, d := range []int{-7300, -3700, -1900, -600, -61, -5, 5, 61, 600, 1900, 3700, 7300} {
			if ch.Chance("dstprobe", 2, 3) {
				if t := dstTr.Add(time.Duration(d)*time.Second + time.Duration(137+ch.Choose("ms", 700))*time.Millisecond); t.After(startInst.Add(5 * time.Second)) {
					probes = append(probes, t)
				}
			}
		}
	}
	sort.Slice(probes, func(i, j int) bool { return probes[i].Before(probes[j]) })

	stable := func(t time.Time) (bool, string, bool) {
		in0, id0 := sc.in(t)
		for _, d := range []time.Duration{-2 * time.Second, -time.Second, time.Second, 2 * time.Second} {
			in1, id1 := sc.in(t.Add(d))
			if in1 != in0 || id1 != id0 {
				return in0, id0, false
			}
		}
		return in0, id0, true
	}
	resetsSeen := func() int {
		n := 0
		for _, sr := range s.E.SF.All {
			for _, call := range sr.Snapshot() {
				if call.Op == "Reset" {
					n++
				}
			}
		}
		return n
	}
	prevIn, prevID := sc.in(startInst)
	_ = prevIn
	lastResets := resetsSeen()
	accepted, refused := 0, 0
	for _, t := range probes {
		if env.Failed() {
			break
		}
		if !t.After(time.Now().Add(3 * time.Second)) {
			continue
		}
		want, id, ok := stable(t)
		if !ok {
			continue
		}
		time.Sleep(time.Until(t))
		env.Settle()
		lt := t.In(sc.loc)
		desc := fmt.Sprintf("%s %s (%s)", lt.Weekday(), lt.Format("2006-01-02 15:04:05"), sc.locName)
		// ---- reset between probes <=> different windows ----
		if want {
			r := resetsSeen()
			if (r > lastResets) != (id != prevID) {
				tags := sc.dstTag(id)
				if t2 := sc.dstTag(prevID); t2 != tags {
					tags += t2
				}
				if strings.Contains(tags, "window-edge-in-repeated-dst-hour") && !strings.Contains(tags, "dst-gap") && r-lastResets <= 1 {
					// The edge is a wall-clock time that occurs twice that day: either occurrence may be the
					// boundary, so one reset more or less than this oracle's choice predicts is not judged. A
					// boundary is crossed once, though: two or more resets are.
					env.Stat("not_judged_single_reset_at_window_edge_in_repeated_dst_hour")
					lastResets, prevID = r, id
					goto classified
				}
				c18Violate(env, "C18/reset"+tags, "at %s (window opened %s; previous in-window instant's window %q): store was reset %d times since, schedule %v", desc, id, prevID, r-lastResets, extra)
				break
			}
			lastResets, prevID = r, id
		}
	classified:
		// ---- accepted <=> in window ----
		p.EP = nil
		if !p.Connect(time.Second) {
			env.Fatalf("connect failed")
		}
		p.OutSeq = a.engT()
		r := p.Send("A", p.LogonBody(c.HeartBtInt, false), MsgOpt{})
		_, got := LastOfType(r, "A")
		env.Note("probe %s: in window %v, logon accepted %v", desc, want, got)
		if got != want {
			c18Violate(env, "C18/classification"+sc.dstTagAt(t, id), "%s is %s a window of schedule %v, but a valid Logon was %s", desc, map[bool]string{true: "inside", false: "outside"}[want], extra, map[bool]string{true: "accepted", false: "refused"}[got])
			break
		}
		if !want {
			refused++
			if len(r) != 0 {
				env.Violate("C18/refusal", "outside the schedule the engine wrote %s", summarize(r))
			}
			if p.Connected() {
				p.Drop()
			}
			env.Stat("probe_refused_outside_window")
			continue
		}
		accepted++
		env.Stat("probe_accepted_inside_window")
		// ---- hold across the window's end, or log out ----
		if ch.Chance("hold", 1, 3) {
			end := t
			for _, step := range []time.Duration{time.Hour, time.Minute, time.Second} {
				for i := 0; i < 24*8*60; i++ {
					if in1, id1 := sc.in(end.Add(step)); !in1 || id1 != id {
						break
					}
					end = end.Add(step)
				}
			}
			// end = last whole step inside; the window closes within the next second
			if end.Sub(t) < 36*time.Hour {
				closeAt := end.Truncate(time.Second).Add(time.Second)
				if closeAt.Sub(time.Now()) > 4*time.Second {
					time.Sleep(time.Until(closeAt.Add(-3 * time.Second)))
					env.Settle()
					if out := p.Collect(); len(out) != 0 || !p.Connected() {
						c18Violate(env, "C18/early-logout"+sc.dstTag(id), "connection held in window %s: engine acted %v before the window's end (%s): %s", id, time.Until(closeAt), closeAt.In(sc.loc).Format("15:04:05"), summarize(out))
						break
					}
				}
				time.Sleep(time.Until(closeAt.Add(3 * time.Second)))
				env.Settle()
				out := p.Collect()
				if _, lo := LastOfType(out, "5"); !lo || p.Connected() {
					c18Violate(env, "C18/no-logout-at-window-end"+sc.dstTag(id), "connection held across the end of window %s (%s): 3 s later logout sent=%v connection open=%v", id, closeAt.In(sc.loc).Format("2006-01-02 15:04:05"), lo, p.Connected())
					break
				}
				env.Stat("probe_logged_out_at_window_end")
				continue
			}
		}
		p.Send("5", nil, MsgOpt{})
		if p.Connected() {
			p.Drop()
		}
	}
	env.Nontrivial = accepted > 0 && refused > 0
	mode := "daily"
	if sc.weekly {
		mode = "weekly"
	} else if len(sc.weekdays) > 0 {
		mode = "weekdays"
	}
	env.State(fmt.Sprintf("%s overnight=%v zone=%s", mode, sc.start > sc.end, sc.locName))
}

// runC18Initiator observes the schedule through an initiator: it dials exactly while an instant is inside a
// window (it waits for the window to open, also when it was created outside one) and never outside.
func runC18Initiator(env *Env, c EngineCfg, sc schedCfg, extra map[string]string, base time.Time) {
	ch := env.Ch
	const reconnect = 300
	c.Initiator = true
	c.HeartBtInt = 30
	c.ReconnectInterval = reconnect
	c.LogonTimeout = 4
	c.LogoutTimeout = 7
	s := StartSut(env, c)
	startIn, _ := sc.in(time.Now())
	env.Cfg["schedule"] = fmt.Sprintf("%v", extra)
	env.Cfg["role"] = "initiator"
	env.Cfg["created_in_window"] = startIn
	env.Stat("probe_initiator_role")
	if !startIn {
		env.Stat("probe_initiator_created_outside_window")
	}
	spanDays := 2 + ch.Choose("span", 5)
	nprobes := 3 + ch.Choose("probes", 8)
	var probes []time.Time
	lt := base.In(sc.loc)
	for i := 0; i < nprobes; i++ {
		day := ch.Choose("probeday", spanDays)
		var t time.Time
		if ch.Chance("random", 1, 3) {
			t = time.Date(lt.Year(), lt.Month(), lt.Day()+day, 0, 0, ch.Choose("probesec", 86400), 0, sc.loc)
		} else {
			edge := sc.start
			if ch.Chance("atend", 1, 2) {
				edge = sc.end
			}
			delta := []int{5, 30, 61, 600, 1200, -320, -400, -1500, -4000}[ch.Choose("delta", 9)]
			t = time.Date(lt.Year(), lt.Month(), lt.Day()+day, 0, 0, edge+delta, 0, sc.loc)
		}
		t = t.Add(time.Duration(137+ch.Choose("ms", 700)) * time.Millisecond)
		if t.After(time.Now().Add(10 * time.Second)) {
			probes = append(probes, t)
		}
	}
	sort.Slice(probes, func(i, j int) bool { return probes[i].Before(probes[j]) })
	const watch = reconnect + 12
	stableOver := func(t time.Time) (bool, bool) {
		in0, id0 := sc.in(t.Add(-3 * time.Second))
		for d := -2; d <= watch+3; d++ {
			if in1, id1 := sc.in(t.Add(time.Duration(d) * time.Second)); in1 != in0 || id1 != id0 {
				return in0, false
			}
		}
		return in0, true
	}
	dialledIn, quietOut := 0, 0
	for _, t := range probes {
		if env.Failed() {
			break
		}
		if !t.After(time.Now().Add(3 * time.Second)) {
			continue
		}
		want, ok := stableOver(t)
		if !ok {
			continue
		}
		time.Sleep(time.Until(t))
		env.Settle()
		for _, ep := range s.W.TakeDialled() {
			ep.FeedEOF(nil)
		}
		env.Settle()
		// nobody answers the Logon: the attempt times out and the initiator waits for its reconnect
		// interval; inside a window at least one dial falls into any period of that length
		dials := 0
		for k := 0; k < watch; k += 4 {
			env.Advance(4 * time.Second)
			for _, ep := range s.W.TakeDialled() {
				dials++
				ep.FeedEOF(nil)
			}
		}
		env.Settle()
		ltp := t.In(sc.loc)
		desc := fmt.Sprintf("%s %s (%s)", ltp.Weekday(), ltp.Format("2006-01-02 15:04:05"), sc.locName)
		env.Note("probe %s: in window %v, dials in the next %d s: %d", desc, want, watch, dials)
		if (dials > 0) != want {
			_, id := sc.in(t)
			c18Violate(env, "C18/initiator-classification"+sc.dstTagAt(t, id), "%s is %s a window of schedule %v (engine created %s one), but the initiator dialled %d times in the following %d s (ReconnectInterval %d s)",
				desc, map[bool]string{true: "inside", false: "outside"}[want], extra, map[bool]string{true: "inside", false: "outside"}[startIn], dials, watch, reconnect)
			return
		}
		if want {
			dialledIn++
		} else {
			quietOut++
		}
	}
	env.Nontrivial = dialledIn > 0 && quietOut > 0
	env.State(fmt.Sprintf("initiator in=%v out=%v createdin=%v weekly=%v", dialledIn > 0, quietOut > 0, startIn, sc.weekly))
}
