package harness

import (
	"fmt"
	"sort"
	"verifsim/wire"
)

// C01 — inbound application messages reach the application in order, exactly once.
//
// The monitor is pure observation of two streams the engine cannot bypass: the Application
// callbacks (with the store's expected number read inside the callback) and the mutating calls on
// the message store. It has no model of which messages must be delivered (that is C04/C05).

func init() {
	Register(&Property{ID: "C01", Run: runC01,
		Rule: "one real engine vs. adversarial stub peer, 15-150 inbound actions mixing application and administrative messages below/at/above the expected number, PossDup with and without OrigSendingTime, gap fills, SequenceReset-Reset, ResendRequests, Logouts, Logons inside the session, re-logons after cuts, peer silence (timers fire), chunk size 0-5, application rejecting some messages; both roles, all BeginStrings; inbound application messages include BusinessMessageReject; peer ResendRequests with off-sequence numbers; extra rule: the expected number advances only for the message that carries it; messages without a usable MsgSeqNum; ResetOnLogon with a counterparty that renumbers from 1 on its in-session Logon. Non-trivial: at least 3 FromApp deliveries and at least one recovery, reset or reject path taken; distinct: canonical trace hash"})
}

type c01ev struct {
	n   int
	app *AppCall
	st  *StoreCall
	in  int // MsgSeqNum of an inbound frame as logged (0: not an inbound-frame event, -1: no readable number)
}

// CheckC01 evaluates the monitor over everything recorded so far.
func CheckC01(env *Env, eng *Engine, sent ...SentMsg) (deliveries int) {
	// when the peer sent each application message (by id), to tell in which epoch it was sent
	sentAt := map[string]int{}
	for _, x := range sent {
		if id := x.Str(58); id != "" && !x.IsAdmin() {
			if _, dup := sentAt[id]; !dup {
				sentAt[id] = x.N
			}
		}
	}
	lastResetN := 0
	var evs []c01ev
	apps := eng.App.Snapshot()
	for i := range apps {
		evs = append(evs, c01ev{n: apps[i].N, app: &apps[i]})
	}
	for _, sr := range eng.SF.All {
		calls := sr.Snapshot()
		for i := range calls {
			evs = append(evs, c01ev{n: calls[i].N, st: &calls[i]})
		}
	}
	eng.LF.mu.Lock()
	for i, b := range eng.LF.In {
		seq := -1
		if m, err := wire.Scan(b); err == nil {
			seq = m.IntOr(34, -1)
		}
		if seq == 0 {
			seq = -1
		}
		evs = append(evs, c01ev{n: eng.LF.InN[i], in: seq})
	}
	eng.LF.mu.Unlock()
	sort.Slice(evs, func(i, j int) bool { return evs[i].n < evs[j].n })
	lastInSeq, lastCbSeq := -1, -1
	T := 1
	lastDelivered := 0 // highest MsgSeqNum handed to FromApp in this epoch
	pendingIncr := -1  // FromApp at T=t seen; the next mover of T must be Incr to t+1
	for _, e := range evs {
		if e.in != 0 {
			lastInSeq = e.in
			continue
		}
		if e.app != nil {
			a := e.app
			if a.Kind == "FromApp" || a.Kind == "FromAdmin" {
				lastCbSeq = a.Seq
				if pendingIncr >= 0 && a.Kind == "FromApp" {
					env.Violate("C01/no-advance", "FromApp at expected number %d was followed by another FromApp (seq %d) before the expected number advanced", pendingIncr, a.Seq)
				}
			}
			if a.Kind != "FromApp" {
				continue
			}
			deliveries++
			if a.Seq != a.T {
				env.Violate("C01/handed-over-off-sequence", "FromApp got MsgSeqNum %d while the session expected %d", a.Seq, a.T)
			}
			if a.T != T {
				env.Violate("C01/expected-number-tracking", "store says %d inside FromApp, the call stream says %d", a.T, T)
			}
			if n0, ok := sentAt[a.ID]; ok && n0 < lastResetN {
				env.Violate("C01/delivered-across-reset", "FromApp got %s (MsgSeqNum %d), which the counterparty sent before the sequence numbers were reset: a message of the previous epoch handed over in the new one", a.ID, a.Seq)
			}
			if a.Seq <= lastDelivered {
				env.Violate("C01/order", "FromApp saw MsgSeqNum %d after %d in the same epoch", a.Seq, lastDelivered)
			}
			lastDelivered = a.Seq
			pendingIncr = a.T
			continue
		}
		c := e.st
		if c.Err != "" {
			continue
		}
		switch c.Op {
		case "IncrTarget":
			if pendingIncr >= 0 && c.A != pendingIncr+1 {
				env.Violate("C01/advance-by-one", "after FromApp at %d the expected number became %d", pendingIncr, c.A)
			}
			if c.A != T+1 {
				env.Violate("C01/expected-number-tracking", "IncrTarget yields %d from %d", c.A, T)
			}
			// the number advances for the message that carries it (just received, or kept earlier and handed
			// over now), never on behalf of a message with another number
			if T != lastInSeq && T != lastCbSeq {
				env.Violate("C01/advance-for-other-number", "expected number advanced from %d although the message being processed carries %d (last callback for %d)", T, lastInSeq, lastCbSeq)
			}
			pendingIncr = -1
			T = c.A
		case "SetTarget":
			if pendingIncr >= 0 {
				env.Violate("C01/advance-by-one", "after FromApp at %d the expected number was set to %d instead of advancing by one", pendingIncr, c.A)
				pendingIncr = -1
			}
			if c.A < T {
				env.Violate("C01/backwards", "expected inbound number moved from %d back to %d without a reset", T, c.A)
			}
			T = c.A
		case "Reset":
			T = 1
			lastDelivered = 0
			pendingIncr = -1
			lastResetN = c.N
		case "Refresh":
			// memory store: no-op; persistent stores reload the same values
		}
	}
	if st := eng.Store(); st != nil {
		if got := st.inner.NextTargetMsgSeqNum(); got != T && !env.Failed() {
			env.Violate("C01/expected-number-tracking", "store expects %d at quiescence, the mutating calls add up to %d", got, T)
		}
	}
	return deliveries
}

func runC01(env *Env, tier string) {
	ch := env.Ch
	c := DrawBaseCfg(env)
	if ch.Chance("chunk", 1, 2) {
		c.ChunkSize = 1 + ch.Choose("chunksize", 5)
	}
	hb := []int{30, 5, 10}[ch.Choose("hb", 3)]
	c.HeartBtInt = hb
	// every Logon the engine accepts starts a new numbering, also one that arrives inside the session
	c.ResetOnLogon = ch.Chance("ResetOnLogon", 1, 6)
	if ch.Chance("inchan", 1, 4) {
		c.InChanCap = ch.Choose("inchancap", 4)
	}
	s := StartSut(env, c)
	a := NewAdv(s, hb, AdvOpts{AllowCuts: true, AllowSends: true, AppTypes: true, RejectApp: ch.Chance("rejectapp", 1, 2)})
	steps := 15 + ch.Choose("steps", 136)
	for i := 0; i < steps && !env.Failed(); i++ {
		a.Step()
		if i%8 == 7 {
			CheckC01(env, s.E, s.P.Sent...)
		}
	}
	n := CheckC01(env, s.E, s.P.Sent...)
	interesting := env.Stats["fault_sequence_gap"]+env.Stats["fault_sequence_reset"]+env.Stats["fault_gapfill"]+env.Stats["fault_possdup"] > 0
	env.Nontrivial = n >= 3 && interesting
	env.StatN("probe_fromapp_deliveries", n)
	env.State(fmt.Sprintf("logons=%d deliveries>=3:%v", a.Logons, n >= 3))
}
