package harness

import (
	"fmt"
	"time"

	"verifsim/wire"
)

// C04 — a sequence gap triggers one exact ResendRequest and loses nothing received.
//
// The oracle is a recovery model built from the PEER's own actions, never from engine state:
// every number the peer ever allocated has a fixed plan (application message with a unique id, or
// administrative, i.e. gap-filled on replay); the model's expected number is the smallest number
// not yet received (original, replay or gap-fill coverage).

func init() {
	Register(&Property{ID: "C04", Run: runC04,
		Rule: "one real engine vs. stub peer; 1-4 rounds of {gap of 1-12 numbers (also on the Logon), then the missing numbers arrive as replays/gap fills in any order within the requested range, interleaved with live application messages, duplicates, and peer silence long enough for a TestRequest to become pending}, chunk size 0 or 1-5, all BeginStrings, both roles; gap fills running past the requested chunk, replays ahead of the requested range; EnableNextExpectedMsgSeqNum against a peer that does not use tag 789; a counterparty that uses tag 789 after the application sent before the connection was up (with and without persisted messages); the gap revealed by the counterparty's own ResendRequest (known finding, run ends there). Non-trivial: at least one recovery completed with a kept (early) application message delivered; distinct: canonical trace hash"})
}

type c04Plan struct {
	app bool
	id  string
}

type c04Model struct {
	env      *Env
	s        *Sut
	chunk    int
	requestRefused bool // the store refuses the next number-assigning write (armed for one gap opener)
	abandoned      bool // the run ended with the engine giving the connection up after such a refusal
	plan     map[int]c04Plan // per number
	received map[int]bool
	start    int // first number of the current epoch that counts
	T        int // model's expected number = mex(received)
	open     bool // some allocated number at or above T has not arrived yet
	top      func() int // one past the highest number the peer has allocated
	logonNum int  // number of a too-high Logon (answered but not consumed), 0 if none outstanding
	lastRRb, lastRRe int // last ResendRequest seen (e==0: to infinity)
	rrCount  int
	early    map[int]bool // early application numbers kept during a recovery
	adminEarly map[int]bool // administrative numbers sent live ahead of a gap: the engine may keep them or not
	earlyDelivered int
	completed int
	marker   int
}

func (m *c04Model) mex() int {
	t := m.T
	for m.received[t] {
		t++
	}
	return t
}

func (m *c04Model) anyMissing(t int) bool {
	for n := t; n < m.top(); n++ {
		if !m.received[n] {
			return true
		}
	}
	return false
}

// refusedRequestEndsRun: the store has just refused the write that numbers the engine's ResendRequest. The request
// cannot go out; the engine may give the connection up (the gap is found again at the next logon) - but it may not
// sit in recovery for a request it never sent.
// deliver feeds one peer message to the engine and judges the reaction.
// covers: the numbers this message makes "received" (one number, or a gap-fill range).
func (m *c04Model) deliver(label string, frame []byte, seq int, covers []int, o MsgOpt) {
	env := m.env
	p := m.s.P
	Tb := m.T
	openBefore := m.open
	env.Note("%s", label)
	r := p.SendRaw(frame, o)
	for _, n := range covers {
		if n > Tb && !m.plan[n].app && len(covers) == 1 && !o.PossDup {
			// a live administrative message ahead of a gap: whether it is kept is FIX behaviour the
			// statement does not constrain; an honest peer gap-fills its number in the replay anyway
			m.adminEarly[n] = true
			continue
		}
		if n >= Tb {
			m.received[n] = true
		}
	}
	Ta := m.mex()
	m.T = Ta
	// the engine kept early administrative messages and has consumed them by now: follow it (whether it
	// keeps them is not constrained by the statement)
	if st := m.s.E.Store(); st != nil {
		if got0 := st.inner.NextTargetMsgSeqNum(); got0 > Ta {
			t := Ta
			for t < got0 && (m.received[t] || m.adminEarly[t]) {
				t++
			}
			if t == got0 {
				for n := Ta; n < got0; n++ {
					m.received[n] = true
				}
				Ta = m.mex()
				m.T = Ta
			}
		}
	}
	nowOpen := m.anyMissing(Ta)
	var rrs []RecvMsg
	for _, x := range r {
		if x.Type() == "2" {
			rrs = append(rrs, x)
		}
	}
	is := func(x RecvMsg, b, e int) bool {
		return x.IntOr(7, -1) == b && x.IntOr(16, -1) == e
	}
	endFor := func(b, rangeEnd int) int {
		// chunked request when the chunk is smaller than what is missing up to rangeEnd
		if m.chunk > 0 && b+m.chunk-1 < rangeEnd {
			return b + m.chunk - 1
		}
		return m.marker
	}
	switch {
	case !openBefore && seq > Tb && len(covers) > 0 && m.requestRefused && len(rrs) == 0:
		// the store refused to number the ResendRequest
		if p.Connected() {
			env.Violate("C04/gap-request/store-refused", "message %d arrived while expecting %d and the store refused to number the ResendRequest: no request went out, yet the engine keeps the connection (it waits for a replay nobody was asked for); engine wrote %s", seq, Tb, summarize(r))
		}
		env.Stat("probe_gap_request_refused_by_store")
		m.abandoned = true
		return
	case !openBefore && seq > Tb && len(covers) > 0:
		// gap detected in normal operation
		want := endFor(Tb, seq-1)
		if len(rrs) != 1 || !is(rrs[0], Tb, want) {
			env.Violate("C04/gap-request", "message %d arrived while expecting %d: want exactly one ResendRequest 7=%d 16=%d, engine wrote %s", seq, Tb, Tb, want, summarize(r))
		}
		env.Stat("probe_gap_opened")
	case openBefore:
		// recovery in progress: only chunk continuations, beginning at the number expected now
		if len(rrs) > 1 {
			env.Violate("C04/duplicate-request", "%d ResendRequests in reaction to one message during recovery: %s", len(rrs), summarize(r))
		} else if len(rrs) == 1 {
			x := rrs[0]
			switch {
			case m.chunk == 0:
				env.Violate("C04/duplicate-request", "ResendRequest 7=%s 16=%s while the recovery (7=%d) is still in progress and no chunking is configured", x.Str(7), x.Str(16), m.lastRRb)
			case Ta == Tb:
				env.Violate("C04/duplicate-request", "ResendRequest 7=%s 16=%s in reaction to a message that did not advance the expected number %d", x.Str(7), x.Str(16), Tb)
			case x.IntOr(7, -1) != Ta:
				env.Violate("C04/chunk-begin", "chunk ResendRequest begins at %s, expected number at that moment is %d", x.Str(7), Ta)
			case !nowOpen:
				env.Violate("C04/spurious-request", "ResendRequest 7=%s 16=%s although every number the peer has sent (below %d) has arrived by now", x.Str(7), x.Str(16), m.top())
			case m.lastRRe != 0 && Ta <= m.lastRRe:
				// a FOLLOWING chunk begins past the end of the one requested before
				env.Violate("C04/chunk-overlap", "chunk ResendRequest 7=%s 16=%s while the chunk requested before it (%d..%d) is still being answered: expected number %d has not passed its end", x.Str(7), x.Str(16), m.lastRRb, m.lastRRe, Ta)
			default:
				e := x.IntOr(16, -1)
				if e != m.marker && e < Ta {
					env.Violate("C04/chunk-end", "chunk ResendRequest 7=%d 16=%d ends before it begins", Ta, e)
				}
				env.Stat("probe_chunk_continuation")
			}
		}
	default:
		if len(rrs) != 0 {
			env.Violate("C04/spurious-request", "ResendRequest %s although nothing is missing (expected %d, message %d)", summarize(rrs), Tb, seq)
		}
	}
	if len(rrs) > 0 {
		x := rrs[len(rrs)-1]
		m.lastRRb, m.lastRRe = x.IntOr(7, 0), x.IntOr(16, 0)
		if m.lastRRe == 999999 {
			m.lastRRe = 0
		}
		m.rrCount++
	}
	if m.open && !nowOpen {
		m.completed++
		env.Stat("probe_recovery_completed")
	}
	m.open = nowOpen
	// nothing received is lost: the engine expects exactly the model's number
	if st := m.s.E.Store(); st != nil && !env.Failed() {
		got0 := st.inner.NextTargetMsgSeqNum()
		if got0 > Ta {
			// the engine kept early administrative messages and has consumed them: follow it
			t := Ta
			for t < got0 && (m.received[t] || m.adminEarly[t]) {
				t++
			}
			if t == got0 {
				for n := Ta; n < got0; n++ {
					m.received[n] = true
				}
				Ta = m.mex()
				m.T = Ta
				m.open = m.anyMissing(Ta)
			}
		}
		if got := got0; got != Ta {
			if len(p.Recv) > 0 && p.Recv[len(p.Recv)-1].Type() == "5" {
				env.Violate("C04/kept-message-rejected", "engine logged out during recovery after %s; expected number %d, model %d: %s", label, got, Ta, summarize(r))
			} else {
				env.Violate("C04/expected-number", "after %s the engine expects %d, but every number below %d has arrived (kept early messages must be delivered, in order, once the gap is closed)", label, got, Ta)
			}
		}
	}
}

func runC04(env *Env, tier string) {
	ch := env.Ch
	c := DrawBaseCfg(env)
	if ch.Chance("chunk", 1, 2) {
		c.ChunkSize = 1 + ch.Choose("chunksize", 5)
	}
	hb := []int{30, 5, 10, 60}[ch.Choose("hb", 4)]
	c.HeartBtInt = hb
	if c.BeginString >= "FIX.4.4" && ch.Chance("nextexpectedoption", 1, 6) {
		// the engine announces tag 789 in its Logon; this counterparty does not use the tag, so everything
		// must work as without the option
		c.Extra = map[string]string{"EnableNextExpectedMsgSeqNum": "Y"}
		env.Stat("probe_next_expected_option_peer_without_tag")
	}
	peer789 := 0
	if c.Extra != nil && ch.Chance("peeruses789", 1, 2) {
		// ... or it does use it: the application has sent 1-3 messages before the connection is up, the
		// counterparty has seen none of them and says so (789=1). With and without persisted messages.
		peer789 = 1 + ch.Choose("presends", 3)
		c.PersistOff = ch.Chance("persistoff", 1, 2)
		env.Stat("probe_next_expected_option_peer_with_tag")
	}
	s := StartSut(env, c)
	p := s.P
	for i := 0; i < peer789; i++ {
		s.E.Send("D", AppBody(fmt.Sprintf("pre%d", i)))
	}
	m := &c04Model{env: env, s: s, chunk: c.ChunkSize, plan: map[int]c04Plan{}, received: map[int]bool{}, early: map[int]bool{}, adminEarly: map[int]bool{}}
	m.top = func() int { return p.OutSeq }
	if c.BeginString < "FIX.4.2" {
		m.marker = 999999
	}
	appBody := func(n int) ([]wire.Field, string) {
		pl := m.plan[n]
		return AppBody(pl.id), pl.id
	}
	alloc := func(app bool) int {
		n := p.OutSeq
		p.OutSeq++
		pl := c04Plan{app: app}
		if app {
			pl.id = fmt.Sprintf("m%d", n)
		}
		m.plan[n] = pl
		return n
	}

	// ---- logon, possibly with the gap on the Logon itself ----
	logonGap := 0
	// (a counterparty using tag 789 fills a gap on the Logon on its own, from the number the engine's Logon
	// announced: whether the engine also asks is not judged then - zero or one exact ResendRequest - everything
	// else is: the early messages are kept, delivered in order and not requested again)
	if (peer789 == 0 || c.ChunkSize == 0) && ch.Chance("logongap", 1, 4) {
		logonGap = 1 + ch.Choose("logongapsize", 6)
		for i := 0; i < logonGap; i++ {
			alloc(ch.Chance("plan", 1, 2))
		}
	}
	m.T = 1
	if !p.Connect(15 * time.Second) {
		env.Fatalf("no connection")
	}
	logonSeq := alloc(false)
	lb := p.LogonBody(hb, false)
	if peer789 > 0 {
		lb = append(lb, wire.FI(789, 1))
	}
	b, _ := p.Build("A", lb, MsgOpt{Seq: logonSeq})
	if logonGap == 0 {
		r := p.SendRaw(b, MsgOpt{})
		if _, ok := LastOfType(append(p.Recv[:0:0], p.Recv...), "A"); !ok {
			env.Fatalf("no Logon from engine: %s", summarize(r))
		}
		m.received[logonSeq] = true
		m.T = m.mex()
	} else {
		// A too-high Logon is answered (Logon, then ResendRequest) but not consumed: its number is
		// still missing afterwards and an honest peer gap-fills it in the replay.
		r := p.SendRaw(b, MsgOpt{})
		env.Note("logon with seq %d while engine expects 1", logonSeq)
		env.Stat("probe_gap_on_logon")
		var rrs []RecvMsg
		for _, x := range r {
			if x.Type() == "2" {
				rrs = append(rrs, x)
			}
		}
		// The Logon's own number is not consumed; whether the gap is counted as logonSeq-1 or
		// logonSeq numbers is the engine's choice, so a chunk equal to logonSeq-1 may or may not chunk.
		okEnd := func(e int) bool {
			if m.chunk > 0 && m.chunk < logonSeq-1 {
				return e == m.chunk
			}
			if m.chunk > 0 && m.chunk == logonSeq-1 {
				return e == m.chunk || e == m.marker
			}
			return e == m.marker
		}
		if peer789 > 0 && len(rrs) == 0 {
			env.Stat("probe_gap_on_logon_peer_with_tag_789_no_request")
			rrs = append(rrs, RecvMsg{})
			m.open = true
			m.logonNum = logonSeq
			m.lastRRb, m.lastRRe = 1, 0
		} else if len(rrs) != 1 || rrs[0].IntOr(7, -1) != 1 || !okEnd(rrs[0].IntOr(16, -1)) {
			env.Violate("C04/gap-request/logon", "Logon %d arrived while expecting 1: want one ResendRequest 7=1 16=<%d or chunk end>, engine wrote %s", logonSeq, m.marker, summarize(r))
			return
		}
		if !m.open {
			m.open = true
			m.logonNum = logonSeq
			m.lastRRb, m.lastRRe = 1, rrs[0].IntOr(16, 0)
			if m.lastRRe == 999999 {
				m.lastRRe = 0
			}
		}
	}

	delivered := func() []string {
		var ids []string
		for _, a := range s.E.App.Snapshot() {
			if a.Kind == "FromApp" {
				ids = append(ids, fmt.Sprintf("%d:%s", a.Seq, a.ID))
			}
		}
		return ids
	}

	sendNumber := func(n int, possDup bool, label string) {
		pl := m.plan[n]
		if pl.app {
			body, id := appBody(n)
			f, _ := p.Build("D", body, MsgOpt{Seq: n, PossDup: possDup})
			m.deliver(fmt.Sprintf("%s app %s seq=%d possdup=%v", label, id, n, possDup), f, n, []int{n}, MsgOpt{Seq: n, PossDup: possDup})
		} else {
			// administrative number: an honest peer never replays it; as a first-time message it is a
			// heartbeat or a test request
			if !possDup && n%3 == 0 {
				f, _ := p.Build("1", []wire.Field{wire.F(112, fmt.Sprintf("TR%d", n))}, MsgOpt{Seq: n})
				m.deliver(fmt.Sprintf("%s testrequest seq=%d", label, n), f, n, []int{n}, MsgOpt{Seq: n})
				return
			}
			f, _ := p.Build("0", nil, MsgOpt{Seq: n, PossDup: possDup})
			m.deliver(fmt.Sprintf("%s heartbeat seq=%d possdup=%v", label, n, possDup), f, n, []int{n}, MsgOpt{Seq: n, PossDup: possDup})
		}
	}

	// answer the outstanding request(s) until the model says nothing is missing
	recoverNow := func() {
		guard := 0
		for m.open && !env.Failed() && p.Connected() {
			guard++
			if guard > 400 {
				env.Fatalf("recovery workload did not converge")
			}
			// what is still missing inside the range the engine asked for most recently
			b, e := m.lastRRb, m.lastRRe
			if e == 0 || e >= p.OutSeq {
				e = p.OutSeq - 1
			}
			var missing []int
			for n := b; n <= e; n++ {
				if !m.received[n] && n >= m.T {
					missing = append(missing, n)
				}
			}
			if len(missing) == 0 {
				// the engine should have asked for the next chunk by now
				env.Violate("C04/recovery-stalled", "numbers from %d are still missing but the engine's last ResendRequest 7=%d 16=%d is fully answered", m.T, m.lastRRb, m.lastRRe)
				break
			}
			switch ch.Weighted("recover", []int{8, 3, 2, 2, 1, 1}) {
			case 5: // the peer runs ahead of the requested range: the replay of the first number behind it
				n := e + 1
				if n >= p.OutSeq || m.received[n] || !m.plan[n].app || n < m.T {
					continue
				}
				sendNumber(n, true, "replay ahead of the requested range")
				env.Stat("fault_replay_beyond_requested_range")
			case 0: // next missing number (in order): replay or gap fill
				n := missing[0]
				if m.plan[n].app {
					sendNumber(n, true, "replay")
				} else {
					// gap fill over the run of administrative numbers starting at n (within the request)
					to := n + 1
					for to <= e && !m.plan[to].app && !m.received[to] {
						to++
					}
					if to-n > 1 && ch.Chance("splitfill", 1, 3) {
						to = n + 1 + ch.Choose("fillrun", to-n-1)
					} else if to == e+1 && ch.Chance("filloverrun", 1, 3) {
						// the peer knows that the numbers behind the requested range are administrative as well
						// and fills over them in one go (NewSeqNo beyond the chunk the engine asked for)
						for to < p.OutSeq && !m.plan[to].app && !m.received[to] {
							to++
						}
						if to > e+1 {
							env.Stat("probe_gap_fill_beyond_requested_range")
						}
					}
					var cov []int
					for k := n; k < to; k++ {
						cov = append(cov, k)
					}
					f, _ := p.Build("4", []wire.Field{wire.F(123, "Y"), wire.FI(36, to)}, MsgOpt{Seq: n, PossDup: true})
					m.deliver(fmt.Sprintf("gap fill %d -> %d", n, to), f, n, cov, MsgOpt{Seq: n, PossDup: true})
					env.Stat("probe_gap_fill")
				}
			case 1: // a later missing application number first (out of order)
				if len(missing) < 2 {
					continue
				}
				k := 1 + ch.Choose("ooo", len(missing)-1)
				n := missing[k]
				if !m.plan[n].app {
					continue
				}
				sendNumber(n, true, "out-of-order replay")
				env.Stat("fault_out_of_order_replay")
			case 2: // live message (mostly application; sometimes a heartbeat)
				liveApp := !ch.Chance("liveadmin", 1, 5)
				n := alloc(liveApp)
				if liveApp {
					m.early[n] = true
				}
				sendNumber(n, false, "live")
				env.Stat("probe_live_during_recovery")
			case 3: // duplicate of something already consumed
				if m.T <= 2 {
					continue
				}
				n := 1 + ch.Choose("dup", m.T-1)
				if pl, ok := m.plan[n]; !ok || !pl.app {
					continue
				}
				body, id := appBody(n)
				f, _ := p.Build("D", body, MsgOpt{Seq: n, PossDup: true})
				before := len(delivered())
				m.deliver(fmt.Sprintf("duplicate app %s seq=%d", id, n), f, n, nil, MsgOpt{Seq: n, PossDup: true})
				if len(delivered()) != before {
					env.Violate("C04/duplicate-delivered", "possible duplicate of consumed number %d reached the application", n)
				}
				env.Stat("fault_duplicate_replay")
			case 4: // peer silence: long enough for heartbeats and a TestRequest to become pending
				d := time.Duration(1+ch.Choose("silence", 22)) * time.Duration(hb) * time.Second / 10
				env.Note("silence %v", d)
				env.Advance(d)
				for _, x := range p.Collect() {
					if x.Type() == "1" {
						env.Stat("probe_testrequest_pending_during_recovery")
					}
					if x.Type() == "2" {
						env.Violate("C04/duplicate-request", "ResendRequest %s written during peer silence in recovery", summarize([]RecvMsg{x}))
					}
				}
				env.Stat("fault_peer_silence")
			}
		}
	}

	if m.open {
		recoverNow()
	}
	if !env.Failed() && p.Connected() && ch.Chance("gaprevealedbyresendrequest", 1, 12) {
		// The message that reveals the gap is the counterparty's own ResendRequest (both sides asking each other
		// after a reconnect is the normal picture). It is answered at once; like any message ahead of the expected
		// number it must open a recovery. The run ends here and is fingerprinted as this condition: the
		// engine answers such a request but neither asks for the gap nor keeps the message (known finding - four
		// upstream tests expect exactly that, so it cannot be repaired with the test suite unedited).
		env.FingerprintAs = "C04/gap-revealed-by-resend-request"
		env.Stat("probe_gap_revealed_by_resend_request")
		for i := 1 + ch.Choose("gap", 5); i > 0; i-- {
			alloc(ch.Chance("plan", 1, 2))
		}
		n := alloc(false)
		f, _ := p.Build("2", []wire.Field{wire.FI(7, 1), wire.FI(16, 0)}, MsgOpt{Seq: n})
		m.deliver(fmt.Sprintf("counterparty's resendrequest seq=%d", n), f, n, []int{n}, MsgOpt{Seq: n})
		env.Nontrivial = true
		return
	}
	rounds := 1 + ch.Choose("rounds", 4)
	for round := 0; round < rounds && !env.Failed() && p.Connected(); round++ {
		// some in-sequence traffic
		for k := ch.Choose("inseq", 4); k > 0 && !env.Failed(); k-- {
			n := alloc(ch.Chance("plan", 3, 4))
			sendNumber(n, false, "in-sequence")
		}
		if env.Failed() || !p.Connected() {
			break
		}
		// the gap
		g := 1 + ch.Choose("gap", 12)
		for i := 0; i < g; i++ {
			alloc(ch.Chance("plan", 1, 2))
		}
		openerApp := !ch.Chance("adminopener", 1, 4)
		n := alloc(openerApp)
		if openerApp {
			m.early[n] = true
		} else {
			env.Stat("probe_gap_detected_on_admin_message")
		}
		if ch.Chance("storerefusesrequest", 1, 12) {
			// the store refuses the write that would number the ResendRequest (disk full, database gone)
			fired := false
			s.E.SF.Fail = func(op string, k int) error {
				if fired || op == "IncrTarget" {
					return nil
				}
				fired = true
				env.Stat("fault_store_write_refused")
				return fmt.Errorf("injected: store refuses %s %d", op, k)
			}
			m.requestRefused = true
		}
		sendNumber(n, false, fmt.Sprintf("skip %d,", g))
		s.E.SF.Fail = nil
		if m.abandoned {
			return
		}
		m.requestRefused = false
		env.State(fmt.Sprintf("gap=%d chunk=%d", g, c.ChunkSize))
		recoverNow()
	}
	if env.Failed() || !p.Connected() {
		if !env.Failed() && !p.Connected() {
			env.Stat("probe_engine_disconnected")
		}
		return
	}
	// ---- end-of-run oracle: every application number was delivered exactly once, in order ----
	var want []string
	for n := 1; n < p.OutSeq; n++ {
		if pl := m.plan[n]; pl.app {
			want = append(want, fmt.Sprintf("%d:%s", n, pl.id))
		}
	}
	got := delivered()
	if len(got) != len(want) {
		env.Violate("C04/delivery", "application saw %d messages, peer sent %d application numbers: got %v want %v", len(got), len(want), got, want)
	} else {
		for i := range got {
			if got[i] != want[i] {
				env.Violate("C04/delivery", "delivery %d is %s, want %s (got %v)", i, got[i], want[i], got)
				break
			}
		}
	}
	if st := s.E.Store(); st != nil && st.inner.NextTargetMsgSeqNum() != p.OutSeq {
		env.Violate("C04/expected-number", "peer skipped nothing and answered in full: engine expects %d, one past the highest received is %d", st.inner.NextTargetMsgSeqNum(), p.OutSeq)
	}
	if m.completed > 0 {
		for n := range m.early {
			_ = n
			env.Nontrivial = true
		}
	}
}
