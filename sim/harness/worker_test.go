package harness

import (
	"encoding/json"
	"fmt"
	"os"
	"runtime"
	"sort"
	"strconv"
	"strings"
	"testing"
	"time"
)

// The test binary is the worker process of the runner. Environment:
//
//	VERIF_PROP, VERIF_TIER, VERIF_SEED (batch seed), VERIF_WORKER, VERIF_BUDGET_MS, VERIF_MAXRUNS,
//	VERIF_OUT (result json), VERIF_KNOWN (known_findings.json), VERIF_REPLAY (replay file: replay mode),
//	VERIF_REPLAY_DIR (where to write replay files), VERIF_VERBOSE
type WorkerResult struct {
	Property   string         `json:"property"`
	Worker     int            `json:"worker"`
	Runs       int            `json:"runs"`
	Nontrivial []uint64       `json:"nontrivial_hashes"`
	Stats      map[string]int `json:"stats"`
	States     []string       `json:"states"`
	SimSeconds float64        `json:"sim_seconds"`
	Samples    []Sample       `json:"samples"`
	Rechecked  int            `json:"rechecked"`
	Diverged   int            `json:"diverged"`
	Known      map[string]int `json:"known_hits"`
	KnownSeeds map[string]uint64 `json:"known_seeds"`
	Violation  *ReplayFile    `json:"violation,omitempty"`
	ReplayPath string         `json:"replay_path,omitempty"`
	Harness    string         `json:"harness_error,omitempty"`
	WallS      float64        `json:"wall_s"`
	Decisions  int            `json:"decisions"`
	Rule       string         `json:"rule"`
	// Recycle: the worker stopped before its budget was used up because its heap had grown large (engine
	// goroutines that never end keep each finished run reachable); NextRun is where a fresh process continues.
	Recycle bool `json:"recycle,omitempty"`
	NextRun int  `json:"next_run,omitempty"`
}

type Sample struct {
	Seed      uint64         `json:"seed"`
	Cfg       map[string]any `json:"config"`
	Trace     []string       `json:"trace"`
	Decisions []int          `json:"decisions,omitempty"`
}

type ReplayFile struct {
	Property    string         `json:"property"`
	Tier        string         `json:"tier"`
	Seed        uint64         `json:"seed"`
	BatchSeed   uint64         `json:"batch_seed"`
	Worker      int            `json:"worker"`
	RunIndex    int            `json:"run_index"`
	Decisions   []int          `json:"decisions"`
	OrigLen     int            `json:"original_decisions"`
	Fingerprint string         `json:"fingerprint"`
	Detail      string         `json:"detail"`
	TraceHash   uint64         `json:"trace_hash"`
	Cfg         map[string]any `json:"config"`
	Trace       []string       `json:"trace"`
	History     []Event        `json:"history_tail"`
	Stats       map[string]int `json:"fault_counters"`
	MinimiseRuns int           `json:"minimise_runs"`
	Generate    bool           `json:"generate,omitempty"` // decisions are re-drawn from the seed (process-killing runs)
}

type KnownFindings struct {
	Known []struct {
		Property    string `json:"property"`
		Fingerprint string `json:"fingerprint"`
		What        string `json:"what"`
	} `json:"known"`
	Fixed []struct {
		Property string `json:"property"`
		Commit   string `json:"commit"`
		What     string `json:"what"`
	} `json:"fixed"`
}

func envInt(name string, def int) int {
	if v := os.Getenv(name); v != "" {
		if n, err := strconv.Atoi(v); err == nil {
			return n
		}
	}
	return def
}

var watchdogTicks = 24

// spinningEngineGoroutine looks for a goroutine in state runnable/running with a frame in the engine's own
// code (the shims and the harness excluded) and returns its frames.
func spinningEngineGoroutine(dump string) string {
	for _, blk := range strings.Split(dump, "\n\n") {
		lines := strings.Split(blk, "\n")
		if len(lines) < 2 || !(strings.Contains(lines[0], "[runnable") || strings.Contains(lines[0], "[running")) {
			continue
		}
		var frames []string
		for _, l := range lines[1:] {
			if strings.HasPrefix(l, "github.com/quickfixgo/quickfix") && !strings.Contains(l, "verifsim") {
				frames = append(frames, strings.TrimSpace(l))
			}
		}
		if len(frames) > 0 {
			return strings.Join(frames, " | ")
		}
	}
	return ""
}

// lockedEngineGoroutine looks for a goroutine that waits for a sync mutex (a wait the simulated clock cannot see
// as blocked) with a frame in the engine's own code, and returns its frames.
func lockedEngineGoroutine(dump string) string {
	for _, blk := range strings.Split(dump, "\n\n") {
		lines := strings.Split(blk, "\n")
		if len(lines) < 2 || !(strings.Contains(lines[0], "[sync.Mutex.Lock") || strings.Contains(lines[0], "[sync.RWMutex.")) {
			continue
		}
		var frames []string
		for _, l := range lines[1:] {
			if strings.HasPrefix(l, "github.com/quickfixgo/quickfix") && !strings.Contains(l, "verifsim") {
				frames = append(frames, strings.TrimSpace(l))
			}
		}
		if len(frames) > 0 {
			return strings.Join(frames, " | ")
		}
	}
	return ""
}

func startWatchdog() {
	// real-time watchdog: outside any bubble, so it runs on the real clock
	go func() {
		last := Beat.Load()
		stuck := 0
		for {
			time.Sleep(5 * time.Second)
			cur := Beat.Load()
			if cur == last {
				stuck++
			} else {
				stuck = 0
			}
			last = cur
			if stuck >= envInt("VERIF_WATCHDOG_TICKS", watchdogTicks) {
				buf := make([]byte, 1<<20)
				n := runtime.Stack(buf, true)
				fmt.Fprintf(os.Stderr, "WATCHDOG: run %d made no progress for %ds\n%s\n", cur, stuck*5, buf[:n])
				// An engine goroutine that has been RUNNABLE all this time (not blocked: spinning) is a
				// finding for the properties that promise liveness, not a harness failure: the run cannot be
				// unwound, so it is handed to the runner as an emergency replay, which must spin again in a
				// fresh process to count.
				if e := CurrentEnv.Load(); e != nil {
					if g := spinningEngineGoroutine(string(buf[:n])); g != "" {
						e.EngineSpins("an engine goroutine keeps running without blocking for " + strconv.Itoa(stuck*5) + " s of real time: " + g)
					}
					if g := lockedEngineGoroutine(string(buf[:n])); g != "" {
						e.EngineBlockedOnLock("an engine goroutine has been waiting for an engine mutex for " + strconv.Itoa(stuck*5) + " s of real time (its holder never lets go): " + g)
					}
				}
				os.Exit(3)
			}
		}
	}()
}

func TestWorker(t *testing.T) {
	propID := os.Getenv("VERIF_PROP")
	if propID == "" {
		t.Skip("VERIF_PROP not set")
	}
	prop := Registry[propID]
	if prop == nil {
		fmt.Fprintf(os.Stderr, "unknown property %q\n", propID)
		os.Exit(2)
	}
	tier := os.Getenv("VERIF_TIER")
	if tier == "" {
		tier = "quick"
	}
	verbose := os.Getenv("VERIF_VERBOSE") != ""
	startWatchdog()

	known := map[string]bool{}
	if kp := os.Getenv("VERIF_KNOWN"); kp != "" {
		if b, err := os.ReadFile(kp); err == nil {
			var kf KnownFindings
			if json.Unmarshal(b, &kf) == nil {
				for _, k := range kf.Known {
					if k.Property == propID {
						known[k.Fingerprint] = true
						KnownFingerprints[k.Fingerprint] = true
					}
				}
			}
		}
	}

	if rp := os.Getenv("VERIF_REPLAY"); rp != "" {
		watchdogTicks = 8 // one run: 40 s without progress is a hang
		replayMode(t, prop, rp, verbose)
		return
	}

	if os.Getenv("VERIF_ONESEED") != "" {
		seed, _ := strconv.ParseUint(os.Getenv("VERIF_ONESEED"), 10, 64)
		reps := envInt("VERIF_REPS", 1)
		for r := 0; r < reps; r++ {
			out := RunOne(t, prop, seed, NewChooser(seed), tier, reps == 1 || os.Getenv("VERIF_VERBOSE") != "")
			fmt.Printf("TRACE %x viol=%v harness=%q\n", out.TraceHash, out.Viol, out.Harness)
		}
		return
	}
	batch := uint64(envInt("VERIF_SEED", 1))
	worker := envInt("VERIF_WORKER", 0)
	budget := time.Duration(envInt("VERIF_BUDGET_MS", 5000)) * time.Millisecond
	maxRuns := envInt("VERIF_MAXRUNS", 1<<30)
	res := WorkerResult{Property: propID, Rule: prop.Rule, Worker: worker, Stats: map[string]int{}, Known: map[string]int{}, KnownSeeds: map[string]uint64{}}
	states := map[string]bool{}
	seen := map[uint64]bool{}
	start := time.Now()
	var progress *os.File
	if op := os.Getenv("VERIF_OUT"); op != "" {
		progress, _ = os.Create(op + ".progress")
	}
	first := envInt("VERIF_FIRST_RUN", 0)
	heapLimit := uint64(envInt("VERIF_HEAP_LIMIT_MB", 2500)) << 20
	for i := first; i-first < maxRuns && time.Since(start) < budget; i++ {
		if (i-first)%32 == 31 {
			var ms runtime.MemStats
			runtime.ReadMemStats(&ms)
			if ms.HeapInuse > heapLimit {
				res.Recycle, res.NextRun = true, i
				break
			}
		}
		seed := mix(batch, uint64(worker), uint64(i))
		if progress != nil {
			progress.WriteAt([]byte(fmt.Sprintf("%-24d %-12d\n", seed, i)), 0)
		}
		ch := NewChooser(seed)
		dbg := os.Getenv("VERIF_DEBUG_RUN") == strconv.Itoa(i)
		if dbg {
			fmt.Println("=====ORIGINAL")
		}
		out := RunOne(t, prop, seed, ch, tier, verbose || dbg)
		if dbg {
			fmt.Println("=====REPLAY")
			re := RunOne(t, prop, seed, NewReplayChooser(out.Decisions), tier, true)
			fmt.Printf("=====HASHES %x %x\n", out.TraceHash, re.TraceHash)
		}
		res.Runs++
		res.Decisions += len(out.Decisions)
		if out.Harness != "" {
			res.Harness = fmt.Sprintf("seed %d run %d: %s", seed, i, out.Harness)
			break
		}
		for k, v := range out.Stats {
			res.Stats[k] += v
		}
		for _, s := range out.States {
			states[s] = true
		}
		res.SimSeconds += out.SimSeconds
		if out.Nontrivial && !seen[out.TraceHash] {
			seen[out.TraceHash] = true
			res.Nontrivial = append(res.Nontrivial, out.TraceHash)
		}
		if len(res.Samples) < 2 && out.Nontrivial && out.Viol == nil {
			res.Samples = append(res.Samples, Sample{Seed: seed, Cfg: out.Cfg, Trace: out.Sample, Decisions: out.Decisions})
		}
		// in-batch determinism re-check: replay a sample of runs from their decision lists
		if i%16 == 3 {
			re := RunOne(t, prop, seed, NewReplayChooser(out.Decisions), tier, false)
			res.Rechecked++
			if re.TraceHash != out.TraceHash || (re.Viol == nil) != (out.Viol == nil) {
				res.Diverged++
				diff := ""
				for k, v := range out.Streams {
					if re.Streams[k] != v {
						diff += " " + k
					}
				}
				for k := range re.Streams {
					if _, ok := out.Streams[k]; !ok {
						diff += " +" + k
					}
				}
				res.Harness = fmt.Sprintf("nondeterminism: seed %d run %d trace %x vs %x; differing streams:%s; decisions %d vs %d", seed, i, out.TraceHash, re.TraceHash, diff, len(out.Decisions), len(re.Decisions))
				if dd := os.Getenv("VERIF_DIVERGE_DIR"); dd != "" {
					b, _ := json.Marshal(map[string]any{"a": out.History, "b": re.History})
					os.WriteFile(fmt.Sprintf("%s/diverge-%s-%d.json", dd, propID, seed), b, 0o644)
				}
				break
			}
		}
		for fp, n := range out.KnownHits {
			res.Known[fp] += n
			if _, ok := res.KnownSeeds[fp]; !ok {
				res.KnownSeeds[fp] = seed
			}
		}
		if out.Viol != nil {
			if known[out.Viol.Fingerprint] {
				res.Known[out.Viol.Fingerprint]++
				if _, ok := res.KnownSeeds[out.Viol.Fingerprint]; !ok {
					res.KnownSeeds[out.Viol.Fingerprint] = seed
				}
				continue
			}
			rf := minimise(t, prop, tier, seed, out, known)
			rf.BatchSeed, rf.Worker, rf.RunIndex = batch, worker, i
			res.Violation = rf
			dir := os.Getenv("VERIF_REPLAY_DIR")
			if dir == "" {
				dir = "."
			}
			path := fmt.Sprintf("%s/%s-%d-%d-%d.json", dir, propID, batch, worker, i)
			b, _ := json.MarshalIndent(rf, "", " ")
			if err := writeFileAtomic(path, b); err != nil {
				res.Harness = "cannot write replay file: " + err.Error()
			}
			res.ReplayPath = path
			break
		}
	}
	for s := range states {
		res.States = append(res.States, s)
	}
	sort.Strings(res.States)
	res.WallS = time.Since(start).Seconds()
	b, _ := json.Marshal(res)
	if op := os.Getenv("VERIF_OUT"); op != "" {
		if err := writeFileAtomic(op, b); err != nil {
			fmt.Fprintln(os.Stderr, err)
			os.Exit(2)
		}
	} else {
		fmt.Println(string(b))
	}
}

// minimise shrinks the decision list (ddmin-style chunk removal, then zeroing and lowering single
// decisions) while a violation with the SAME fingerprint recurs. Every candidate runs in a fresh bubble.
func minimise(t *testing.T, prop *Property, tier string, seed uint64, out RunOutcome, known map[string]bool) *ReplayFile {
	best := append([]int(nil), out.Decisions...)
	bestOut := out
	fp := out.Viol.Fingerprint
	runs := 0
	maxRuns := envInt("VERIF_MIN_RUNS", 600)
	deadline := time.Now().Add(time.Duration(envInt("VERIF_MIN_MS", 60000)) * time.Millisecond)
	try := func(cand []int) bool {
		if runs >= maxRuns || time.Now().After(deadline) {
			return false
		}
		runs++
		o := RunOne(t, prop, seed, NewReplayChooser(cand), tier, false)
		if o.Harness == "" && o.Viol != nil && o.Viol.Fingerprint == fp {
			// keep the decisions actually consumed (trailing unused ones are dropped)
			best = append([]int(nil), o.Decisions...)
			for len(best) > 0 && best[len(best)-1] == 0 {
				best = best[:len(best)-1]
			}
			bestOut = o
			return true
		}
		return false
	}
	// first: the replay itself (trims to consumed decisions)
	try(best)
	// chunk removal
	for n := 2; len(best) > 1; {
		size := (len(best) + n - 1) / n
		removed := false
		for i := 0; i < len(best); i += size {
			j := i + size
			if j > len(best) {
				j = len(best)
			}
			cand := append(append([]int(nil), best[:i]...), best[j:]...)
			if try(cand) {
				removed = true
				if n > 2 {
					n--
				}
				break
			}
		}
		if runs >= maxRuns || time.Now().After(deadline) {
			break
		}
		if !removed {
			if size <= 1 {
				break
			}
			n *= 2
			if n > len(best) {
				n = len(best)
			}
		}
	}
	// zero, then halve single decisions
	for pass := 0; pass < 2; pass++ {
		for i := 0; i < len(best); i++ {
			if best[i] == 0 {
				continue
			}
			cand := append([]int(nil), best...)
			cand[i] = 0
			if try(cand) {
				continue
			}
			if best[i] > 1 {
				cand = append([]int(nil), best...)
				cand[i] = best[i] / 2
				try(cand)
			}
		}
	}
	return &ReplayFile{Property: prop.ID, Tier: tier, Seed: seed, Decisions: best, OrigLen: len(out.Decisions),
		Fingerprint: fp, Detail: bestOut.Viol.Detail, TraceHash: bestOut.TraceHash, Cfg: bestOut.Cfg, Trace: bestOut.Sample,
		History: tail(bestOut.History, 200), Stats: bestOut.Stats, MinimiseRuns: runs}
}

func tail(h []Event, n int) []Event {
	if len(h) > n {
		return h[len(h)-n:]
	}
	return h
}

// replayMode re-executes a replay file and reports whether the same violation recurs.
// Output (stdout, one line): REPLAY fingerprint=<fp> trace=<hash> | REPLAY clean trace=<hash>
func replayMode(t *testing.T, prop *Property, path string, verbose bool) {
	b, err := os.ReadFile(path)
	if err != nil {
		fmt.Fprintln(os.Stderr, err)
		os.Exit(2)
	}
	var rf ReplayFile
	if err := json.Unmarshal(b, &rf); err != nil {
		fmt.Fprintln(os.Stderr, err)
		os.Exit(2)
	}
	tier := rf.Tier
	if tier == "" {
		tier = "quick"
	}
	// known findings met on the way are passed over, as in the batch - except the one this file is about
	delete(KnownFingerprints, rf.Fingerprint)
	chooser := NewReplayChooser(rf.Decisions)
	if rf.Generate {
		chooser = NewChooser(rf.Seed)
		fmt.Printf("REPLAY generate-mode seed=%d (a crash of this process is the violation)\n", rf.Seed)
	}
	o := RunOne(t, prop, rf.Seed, chooser, tier, verbose)
	if o.Harness != "" {
		fmt.Printf("REPLAY harness-error %s\n", o.Harness)
		os.Exit(2)
	}
	if o.Viol == nil {
		fmt.Printf("REPLAY clean trace=%x\n", o.TraceHash)
		for fp, n := range o.KnownHits {
			fmt.Printf("REPLAY passed over known finding %s (%d times)\n", fp, n)
		}
		return
	}
	fmt.Printf("REPLAY fingerprint=%s trace=%x same_trace=%v\n", o.Viol.Fingerprint, o.TraceHash, o.TraceHash == rf.TraceHash)
	fmt.Printf("DETAIL %s\n", o.Viol.Detail)
	if verbose {
		for _, l := range o.Sample {
			fmt.Println("  ", l)
		}
	}
}
