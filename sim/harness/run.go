package harness

import (
	"fmt"
	"os"
	"runtime/debug"
	"sort"
	"strings"
	"sync/atomic"
	"testing"
	"testing/synctest"
	"time"

	"github.com/quickfixgo/quickfix/verifsim/simnet"
	"github.com/quickfixgo/quickfix/verifsim/simos"
	"github.com/quickfixgo/quickfix/verifsim/simsync"
)

// Property is one claimed property: a workload generator plus its oracle.
type Property struct {
	ID string
	// Run executes one simulated run inside a bubble. It must draw every decision from env.Ch.
	Run func(env *Env, tier string)
	// Rule describes, for the evidence file, how cases are generated and what makes one non-trivial.
	Rule string
	// NoBubble runs the property outside synctest (no clock/goroutines involved, e.g. parser level).
	NoBubble bool
}

var Registry = map[string]*Property{}

func Register(p *Property) { Registry[p.ID] = p }

type RunOutcome struct {
	Seed      uint64
	Decisions []int
	Viol      *Violation
	TraceHash uint64
	Stats     map[string]int
	States    []string
	Nontrivial bool
	SimSeconds float64
	Cfg       map[string]any
	Sample    []string
	History   []Event
	Harness   string // non-empty: harness failure (not a violation)
	Streams   map[string]uint64
	KnownHits map[string]int
}

var runCounter atomic.Uint64

// Beat is bumped at the start of every run; the watchdog in the worker watches it.
var Beat atomic.Uint64

// CurrentEnv is the run in progress (for the watchdog).
var CurrentEnv atomic.Pointer[Env]

var uniq atomic.Uint64

// Uniq returns a process-unique suffix for CompIDs (the engine's session registry is global).
func Uniq() string { return fmt.Sprintf("%d", uniq.Add(1)) }

// RunOne executes one run of prop with the given chooser in a fresh bubble.
func RunOne(t *testing.T, prop *Property, seed uint64, ch *Chooser, tier string, verbose bool) (out RunOutcome) {
	Beat.Add(1)
	env := NewEnv(prop.ID, seed, ch)
	env.Verbose = verbose
	out.Seed = seed
	CurrentEnv.Store(env)
	body := func() {
		env.T0 = time.Now()
		simnet.SetCurrent(nil)
		simos.SetCurrent(simos.NewFS())
		simsync.Install(nil)
		simsync.SkewReset(true)
		defer func() {
			if r := recover(); r != nil {
				if he, ok := r.(harnessError); ok {
					out.Harness = he.msg
				} else if _, ok := r.(abortRun); ok {
					// run aborted after a violation
				} else {
					out.Harness = fmt.Sprintf("panic on driver goroutine: %v\n%s", r, debug.Stack())
				}
			}
			for i := len(env.cleanup) - 1; i >= 0; i-- {
				func() {
					defer func() {
						if r := recover(); r != nil && out.Harness == "" {
							out.Harness = fmt.Sprintf("panic in cleanup: %v\n%s", r, debug.Stack())
						}
					}()
					env.cleanup[i]()
				}()
			}
			simsync.Install(nil)
		}()
		prop.Run(env, tier)
		if env.simSeconds == 0 {
			env.simSeconds = time.Since(env.T0).Seconds()
		}
	}
	if prop.NoBubble {
		body()
	} else {
		func() {
			defer func() {
				if r := recover(); r != nil {
					s := fmt.Sprint(r)
					// The engine leaks time.AfterFunc goroutines blocked on sessionEvent after a session
					// stops; synctest reports them when the bubble's root returns. Exactly this message
					// is expected, anything else is a harness failure.
					if !strings.Contains(s, "main bubble goroutine has exited but blocked goroutines remain") {
						if out.Harness == "" {
							out.Harness = "bubble panic: " + s
						}
					}
				}
			}()
			synctest.Test(t, func(*testing.T) { body() })
		}()
	}
	out.Decisions = ch.Log
	out.Viol = env.Viol
	out.TraceHash = env.TraceHash()
	out.Streams = env.StreamHashes()
	out.KnownHits = env.KnownHits
	out.Stats = env.Stats
	for k := range env.States {
		out.States = append(out.States, k)
	}
	sort.Strings(out.States)
	out.Nontrivial = env.Nontrivial
	out.SimSeconds = env.simSeconds
	out.Cfg = env.Cfg
	out.Sample = env.Sample
	out.History = env.History()
	return out
}

type abortRun struct{}

// CheckAbort ends the run early once a violation has been recorded.
func (e *Env) CheckAbort() {
	if e.Failed() {
		panic(abortRun{})
	}
}

// Fatalf reports a harness-level problem (not a property violation) and aborts the run.
func (e *Env) Fatalf(format string, a ...any) {
	panic(harnessError{fmt.Sprintf(format, a...)})
}

// ---------------------------------------------------------------------------------------------
// Sut: one real engine against the stub peer.
// ---------------------------------------------------------------------------------------------

type Sut struct {
	Env *Env
	W   *simnet.World
	E   *Engine
	P   *Peer
	CL  *ConnLog
	// LogonAnswerDelay: how long the stub peer takes to answer an initiator's Logon (Sut.Logon).
	LogonAnswerDelay time.Duration
}

var beginStrings = []string{"FIX.4.2", "FIX.4.4", "FIX.4.0", "FIX.4.1", "FIX.4.3", "FIXT.1.1"}

// DrawBaseCfg draws role, BeginString and CompIDs; decision 0 is an acceptor speaking FIX.4.2.
func DrawBaseCfg(env *Env) EngineCfg {
	c := EngineCfg{Name: "E", InChanCap: -1, Store: "memory"}
	c.Initiator = env.Ch.Choose("role", 2) == 1
	c.BeginString = beginStrings[env.Ch.Choose("begin", len(beginStrings))]
	// The engine's session registry is process-global; every run unregisters its sessions in
	// teardown, so fixed CompIDs can be reused (and keep traces comparable between runs).
	c.Sender = "ENG"
	c.Target = "PEER"
	c.Port = 5001
	c.HeartBtInt = 30
	if c.Initiator {
		// Timer settings are chosen so that two engine timers armed in the same handler never fall due
		// at the same simulated instant (HeartBtInt, 1.2 x HeartBtInt, LogonTimeout, LogoutTimeout all
		// differ for every HeartBtInt the workloads use): Go's select picks at random between two ready
		// timer events, which the engine itself does not order either.
		//
		// ReconnectInterval > LogonTimeout on purpose: the engine never cancels the logon-timeout
		// timer of an earlier connection attempt, so with a shorter reconnect interval a stale timer
		// can fire into a later attempt and, when attempts fail in a row, keep doing so (each failed
		// attempt arms another timer). No listed property forbids that, and workloads that need working
		// reconnects must not depend on it.
		c.ReconnectInterval = 8
		c.LogonTimeout = 4
		c.LogoutTimeout = 7
	}
	return c
}

// StartSut creates and starts the engine and registers teardown.
func StartSut(env *Env, c EngineCfg) *Sut {
	w := simnet.NewWorld()
	simnet.SetCurrent(w)
	eng, err := NewEngine(env, w, c)
	if err != nil {
		env.Fatalf("engine creation failed: %v (cfg %s)", err, c)
	}
	s := &Sut{Env: env, W: w, E: eng}
	s.CL = NewConnLog(env, w)
	s.P = NewPeer(env, w, eng)
	s.P.CL = s.CL
	env.Cfg["engine"] = c.String()
	if err := eng.Start(); err != nil {
		env.Fatalf("engine start failed: %v", err)
	}
	env.OnCleanup(func() { s.Teardown() })
	// session loop aligns itself to the next whole second before serving requests
	env.Advance(1100 * time.Millisecond)
	return s
}

// Teardown stops the engine and makes sure every session goroutine has ended, otherwise the
// bubble would never finish (the session's ticker runs forever).
func (s *Sut) Teardown() {
	s.Env.simSeconds = time.Since(s.Env.T0).Seconds()
	s.Env.Freeze()
	if sch := currentSched; sch != nil {
		sch.Drain()
		currentSched = nil
	}
	s.E.Dead = true
	s.E.StopAsync()
	for i := 0; i < 200 && !s.E.StopFinished(); i++ {
		if s.P.EP != nil {
			s.P.EP.TakeOut()
			s.P.EP.FeedEOF(nil)
		}
		for _, d := range s.W.TakeDialled() {
			d.FeedEOF(nil)
		}
		time.Sleep(500 * time.Millisecond)
		synctest.Wait()
	}
	if !s.E.StopFinished() {
		s.Env.EngineStuck("engine did not stop within 100 simulated seconds of Stop() in teardown")
	}
	for _, st := range s.E.SF.All {
		st.inner.Close()
	}
}

var currentSched *simsync.Scheduler

// Logon performs the handshake from the peer's side. hb is the interval the peer announces (acceptor
// role) — the initiator announces its own. Returns the engine's Logon.
func (s *Sut) Logon(hb int, reset bool) (RecvMsg, bool) {
	p := s.P
	if !p.Connect(15 * time.Second) {
		return RecvMsg{}, false
	}
	if s.E.Cfg.Initiator {
		// engine has sent its Logon
		lg, ok := LastOfType(p.Recv, "A")
		if !ok || lg.Conn != p.Conn {
			return RecvMsg{}, false
		}
		if lg.Str(141) == "Y" {
			p.OutSeq = 1
			reset = true
		}
		if s.LogonAnswerDelay > 0 {
			// a slow counterparty: the answer to the initiator's Logon takes a while
			s.Env.Advance(s.LogonAnswerDelay)
			p.Collect()
			if !p.Connected() {
				return lg, false
			}
		}
		p.Send("A", p.LogonBody(s.E.Cfg.HeartBtInt, reset), MsgOpt{})
		return lg, p.Connected()
	}
	if reset {
		p.OutSeq = 1
	}
	r := p.Send("A", p.LogonBody(hb, reset), MsgOpt{})
	lg, ok := LastOfType(r, "A")
	return lg, ok
}

func writeFileAtomic(path string, b []byte) error {
	tmp := path + ".tmp"
	if err := os.WriteFile(tmp, b, 0o644); err != nil {
		return err
	}
	return os.Rename(tmp, path)
}
