package harness

import (
	"github.com/quickfixgo/quickfix/verifsim/simos"
	"bytes"
	"database/sql"
	"errors"
	"fmt"
	"sort"
	"time"

	"github.com/quickfixgo/quickfix"
	"github.com/quickfixgo/quickfix/config"
	filestore "github.com/quickfixgo/quickfix/store/file"
	sqlstore "github.com/quickfixgo/quickfix/store/sql"
)

// C16 — every message store behaves like the same abstract store, durably. Fault-free by
// construction: this is the configuration with NO relaxation that C17's oracle is kept separate from.

func init() {
	Register(&Property{ID: "C16", Run: runC16,
		Rule: "the real memory, file (on the simulated disk) and SQL (sqlite3) stores through their public factories, 1-3 sessions sharing one directory/database, 5-80 operations drawn from set/incr of either counter, save, save-and-increment (ascending numbers per epoch; bytes incl. SOH, newline, comma, NUL-free binary, empty, 64 KB), get/iterate over arbitrary ranges (empty, inverted, beyond the end; callbacks aborting at the i-th message), refresh, reset, close-and-reopen through a fresh factory, clock advances; every return value compared with the reference model; sessions that differ in exactly one part of their id (each optional part empty in all of them in a third of the runs); SQL: one statement refused inside Refresh or Reset (the operation reports the error and changes nothing). Non-trivial: at least one save, one ranged read returning data and one of refresh/reopen/reset; distinct: canonical trace hash"})
}

type storeModel struct {
	S, T  int
	ctime time.Time
	// ctimeLo..ctimeHi bracket the operation that renews the creation time (create, reset): the store may read
	// the clock anywhere inside it. The first look pins the model to the value the store reports; from then on
	// (refresh, reopen, further operations) it must not move.
	ctimeLo, ctimeHi time.Time
	ctimePinned      bool
	msgs  map[int][]byte
	maxN  int
}

func newStoreModel() *storeModel {
	return &storeModel{S: 1, T: 1, ctime: time.Now(), ctimeLo: time.Now(), msgs: map[int][]byte{}}
}

func (m *storeModel) rangeOf(b, e int) [][]byte {
	var keys []int
	for n := range m.msgs {
		if n >= b && n <= e {
			keys = append(keys, n)
		}
	}
	sort.Ints(keys)
	var r [][]byte
	for _, k := range keys {
		r = append(r, m.msgs[k])
	}
	return r
}

type storeUnderTest struct {
	kind    string
	sid     quickfix.SessionID
	factory func() (quickfix.MessageStore, error)
	st      quickfix.MessageStore
	m       *storeModel
}

func c16Payload(env *Env, n int) []byte {
	ch := env.Ch
	switch ch.Weighted("payload", []int{6, 2, 1, 1, 1, 1}) {
	case 0:
		return []byte(fmt.Sprintf("8=FIX.4.2\x019=40\x0135=D\x0134=%d\x0149=A\x0156=B\x0158=msg%d\x0110=000\x01", n, n))
	case 1:
		return []byte(fmt.Sprintf("line1\nline2,with,commas\r\n%d,%d,%d\n", n, n+1, n+2))
	case 2:
		return []byte{}
	case 3:
		b := make([]byte, 65536)
		x := mix(env.Seed, uint64(n), 5)
		for i := range b {
			x = x*6364136223846793005 + 1442695040888963407
			b[i] = byte(32 + (x>>33)%95)
		}
		return b
	case 4:
		return []byte(fmt.Sprintf("quote'\"%%s;DROP TABLE messages;--%d", n))
	default:
		return []byte(fmt.Sprintf("\x01\x01=\x01%d\t\x7f end", n))
	}
}

func sameTime(a, b time.Time) bool { return a.Equal(b) }

func (u *storeUnderTest) check(env *Env, after string) {
	if env.Failed() {
		return
	}
	if got := u.st.NextSenderMsgSeqNum(); got != u.m.S {
		env.Violate("C16/"+u.kind+"/sender-counter", "after %s: NextSenderMsgSeqNum %d, model %d", after, got, u.m.S)
	}
	if got := u.st.NextTargetMsgSeqNum(); got != u.m.T {
		env.Violate("C16/"+u.kind+"/target-counter", "after %s: NextTargetMsgSeqNum %d, model %d", after, got, u.m.T)
	}
	if !u.m.ctimePinned {
		if u.m.ctimeHi.IsZero() {
			u.m.ctimeHi = time.Now()
		}
		got := u.st.CreationTime()
		if got.Before(u.m.ctimeLo) || got.After(u.m.ctimeHi) {
			env.Violate("C16/"+u.kind+"/creation-time", "after %s: CreationTime %v is not an instant of the operation that renewed it (%v .. %v)", after, got, u.m.ctimeLo, u.m.ctimeHi)
		}
		u.m.ctime, u.m.ctimePinned = got, true
	}
	if got := u.st.CreationTime(); !sameTime(got, u.m.ctime) {
		env.Violate("C16/"+u.kind+"/creation-time", "after %s: CreationTime %v, model %v", after, got, u.m.ctime)
	}
}

func runC16(env *Env, tier string) {
	ch := env.Ch
	kind := []string{"file", "memory", "sql"}[ch.Weighted("store", []int{5, 2, 3})]
	nsess := 1 + ch.Choose("sessions", 3)
	settings := quickfix.NewSettings()
	var keeper *sql.DB
	var dsn string
	if kind == "sql" {
		var err error
		dsn, keeper, err = NewSQLDatabase()
		if err != nil {
			env.Fatalf("sqlite: %v", err)
		}
		env.OnCleanup(func() { keeper.Close(); SQLFaults.Reset() })
		SQLFaults.Reset()
		// every statement takes simulated time: an instant read before a statement or commit is not the
		// instant read after it (creation time written to the database vs. kept in the cache)
		SQLFaults.Latency.Store(int64(150 * time.Microsecond))
	}
	twins := nsess > 1 && ch.Chance("twins", 1, 3)
	twinKey := []string{config.SenderCompID, config.SenderSubID, config.SenderLocationID, config.TargetCompID, config.TargetSubID,
		config.TargetLocationID, config.SessionQualifier, config.BeginString}[ch.Choose("twinkey", 8)]
	collide := twins && nsess == 2 && ch.Chance("collide", 1, 6)
	// which optional id parts are empty in every twin (the part the twins differ in is then empty in the first
	// of them only): code that treats a part differently when its neighbour is absent is reached only this way
	blank := map[string]bool{}
	if twins {
		env.Stat("probe_sessions_differing_in_one_id_part")
		for _, k := range []string{config.SenderSubID, config.SenderLocationID, config.TargetSubID, config.TargetLocationID, config.SessionQualifier} {
			if ch.Chance("blankpart", 1, 3) {
				blank[k] = true
			}
		}
		if len(blank) > 0 {
			env.Stat("probe_twin_sessions_with_empty_id_parts")
		}
	}
	if collide && kind == "file" {
		// known finding: the file store derives its file names from the id parts that are present, joined
		// without saying which they are: these two sessions share all five files
		env.FingerprintAs = "C16/file/session-ids-collide-in-file-names"
		env.Stat("probe_session_ids_colliding_in_file_names")
	}
	var stores []*storeUnderTest
	for i := 0; i < nsess; i++ {
		ss := quickfix.NewSessionSettings()
		if twins {
			// the sessions share every part of their id except one: the backing store must key on all of them
			ss.Set(config.BeginString, "FIX.4.4")
			ss.Set(config.SenderCompID, "SND")
			ss.Set(config.TargetCompID, "TGT")
			ss.Set(config.SenderSubID, "SS")
			ss.Set(config.SenderLocationID, "SL")
			ss.Set(config.TargetSubID, "TS")
			ss.Set(config.TargetLocationID, "TL")
			ss.Set(config.SessionQualifier, "Q")
			for k := range blank {
				ss.Set(k, "")
			}
			if collide {
				// ... or differ in WHICH part carries a value: SenderSubID "X" here, SenderLocationID "X" there
				ss.Set(config.SenderSubID, "")
				ss.Set(config.SenderLocationID, "")
				ss.Set([]string{config.SenderSubID, config.SenderLocationID}[i%2], "X")
			} else if i > 0 {
				ss.Set(twinKey, fmt.Sprintf("%s%d", map[bool]string{true: "FIX.4.", false: "V"}[twinKey == config.BeginString], i+1))
			}
		} else {
			ss.Set(config.BeginString, []string{"FIX.4.2", "FIX.4.4", "FIXT.1.1"}[i%3])
			ss.Set(config.SenderCompID, "SND")
			ss.Set(config.TargetCompID, fmt.Sprintf("TGT%d", i))
			if i == 1 {
				ss.Set(config.SenderSubID, "SUB")
				ss.Set(config.SessionQualifier, "Q1")
			}
			if i == 2 {
				ss.Set(config.DefaultApplVerID, "FIX.5.0SP2")
				ss.Set(config.TargetLocationID, "LOC")
			}
		}
		ss.Set(config.FileStorePath, "/shared/store")
		ss.Set(config.FileStoreSync, []string{"Y", "N"}[ch.Choose("filesync", 2)])
		ss.Set(config.SQLStoreDriver, "simsqlite3")
		ss.Set(config.SQLStoreDataSourceName, dsn)
		sid, err := settings.AddSession(ss)
		if err != nil {
			env.Fatalf("settings: %v", err)
		}
		u := &storeUnderTest{kind: kind, sid: sid}
		switch kind {
		case "file":
			u.factory = func() (quickfix.MessageStore, error) { return filestore.NewStoreFactory(settings).Create(sid) }
		case "sql":
			u.factory = func() (quickfix.MessageStore, error) { return sqlstore.NewStoreFactory(settings).Create(sid) }
		default:
			u.factory = func() (quickfix.MessageStore, error) { return quickfix.NewMemoryStoreFactory().Create(sid) }
		}
		u.m = newStoreModel()
		u.st, err = u.factory()
		if err != nil {
			env.Violate("C16/"+kind+"/create", "factory failed on an empty backing store: %v", err)
			return
		}
		stores = append(stores, u)
		u.check(env, "create")
	}
	env.OnCleanup(func() {
		for _, u := range stores {
			if u.st != nil {
				u.st.Close()
			}
		}
	})
	env.Cfg["store"] = kind
	env.Cfg["sessions"] = nsess
	saves, readsWithData, structural := 0, 0, 0
	nops := 5 + ch.Choose("ops", 76)
	// a store call that panics on the caller's goroutine is the store's failure, not the harness's
	defer func() {
		if r := recover(); r != nil {
			if _, ok := r.(harnessError); ok {
				panic(r)
			}
			if _, ok := r.(abortRun); ok {
				panic(r)
			}
			env.Violate("C16/"+kind+"/panic", "a store operation panicked: %v", r)
		}
	}()
	for i := 0; i < nops && !env.Failed(); i++ {
		u := stores[ch.Choose("session", len(stores))]
		m := u.m
		op := ch.Weighted("op", []int{2, 2, 3, 3, 5, 6, 5, 3, 2, 2, 3, 1})
		label := ""
		switch op {
		case 0:
			n := 1 + ch.Choose("setS", []int{20, 1000, 1000000}[ch.Choose("setmag", 3)])
			label = fmt.Sprintf("SetNextSenderMsgSeqNum(%d)", n)
			if err := u.st.SetNextSenderMsgSeqNum(n); err != nil {
				env.Violate("C16/"+kind+"/error", "%s: %v", label, err)
			}
			m.S = n
		case 1:
			n := 1 + ch.Choose("setT", []int{20, 1000, 1000000}[ch.Choose("setmag", 3)])
			label = fmt.Sprintf("SetNextTargetMsgSeqNum(%d)", n)
			if err := u.st.SetNextTargetMsgSeqNum(n); err != nil {
				env.Violate("C16/"+kind+"/error", "%s: %v", label, err)
			}
			m.T = n
		case 2, 3:
			incr, name := u.st.IncrNextSenderMsgSeqNum, "IncrNextSenderMsgSeqNum"
			if op == 3 {
				incr, name = u.st.IncrNextTargetMsgSeqNum, "IncrNextTargetMsgSeqNum"
			}
			if kind == "file" && ch.Chance("incrdiskfault", 1, 6) {
				// the disk refuses the write of the counter file (nothing is written): the operation reports the
				// error and changes nothing - the store keeps answering the old number, now and after a refresh
				simos.Current().ArmWriteFault(1, simos.Fault{Err: errors.New("injected: input/output error")})
				label = name + " while the disk refuses the write"
				err := incr()
				if simos.Current().DisarmWriteFault() {
					env.Fatalf("%s: the armed disk fault did not fire", label)
				}
				if err == nil {
					env.Violate("C16/file/failure-swallowed", "%s reported success", label)
				}
				env.Stat("fault_disk_write_error_in_increment")
				break
			}
			label = name
			if err := incr(); err != nil {
				env.Violate("C16/"+kind+"/error", "%s: %v", label, err)
			}
			if op == 2 {
				m.S++
			} else {
				m.T++
			}
		case 4, 5:
			n := m.maxN + 1 + ch.Choose("skip", 3)*ch.Choose("skipon", 2)
			b := c16Payload(env, n)
			var err error
			if op == 4 {
				label = fmt.Sprintf("SaveMessage(%d, %d bytes)", n, len(b))
				err = u.st.SaveMessage(n, append([]byte(nil), b...))
			} else {
				label = fmt.Sprintf("SaveMessageAndIncrNextSenderMsgSeqNum(%d, %d bytes)", n, len(b))
				err = u.st.SaveMessageAndIncrNextSenderMsgSeqNum(n, append([]byte(nil), b...))
				m.S++
			}
			if err != nil {
				env.Violate("C16/"+kind+"/error", "%s: %v", label, err)
			}
			m.msgs[n] = b
			m.maxN = n
			saves++
		case 6, 7:
			lo := ch.Choose("lo", m.maxN+3)
			hi := lo + ch.Choose("span", 8) - 2
			if ch.Chance("whole", 1, 4) {
				lo, hi = 0, m.maxN+5
			}
			switch ch.Choose("oddrange", 12) {
			case 1:
				lo, hi = m.maxN+3, 1 // clearly inverted
			case 2:
				hi = 1 << 50 // far beyond the end
			case 3:
				lo, hi = -5, m.maxN+1
			}
			want := m.rangeOf(lo, hi)
			if op == 6 {
				label = fmt.Sprintf("GetMessages(%d,%d)", lo, hi)
				got, err := u.st.GetMessages(lo, hi)
				if err != nil {
					env.Violate("C16/"+kind+"/error", "%s: %v", label, err)
					break
				}
				compareMsgs(env, kind, label, got, want)
			} else {
				abortAt := -1
				if len(want) > 0 && ch.Chance("abort", 1, 2) {
					abortAt = ch.Choose("abortat", len(want))
				}
				label = fmt.Sprintf("IterateMessages(%d,%d) abort at %d", lo, hi, abortAt)
				stop := errors.New("callback says stop")
				var got [][]byte
				err := u.st.IterateMessages(lo, hi, func(b []byte) error {
					got = append(got, append([]byte(nil), b...))
					if len(got)-1 == abortAt {
						return stop
					}
					return nil
				})
				if abortAt >= 0 {
					if !errors.Is(err, stop) && (err == nil || err.Error() != stop.Error()) {
						env.Violate("C16/"+kind+"/iterate-abort", "%s: callback error not returned, got %v", label, err)
					}
					want = want[:abortAt+1]
				} else if err != nil {
					env.Violate("C16/"+kind+"/error", "%s: %v", label, err)
				}
				compareMsgs(env, kind, label, got, want)
			}
			if len(want) > 0 {
				readsWithData++
			}
		case 8:
			if kind == "sql" && ch.Chance("refreshfault", 1, 3) {
				// the database cannot be read at this moment: the operation reports the error and changes nothing
				SQLFaults.Arm("select", 1)
				label = "Refresh while the database refuses the SELECT"
				err := u.st.Refresh()
				SQLFaults.Arm("select", 0)
				if err == nil {
					env.Violate("C16/sql/failure-swallowed", "%s reported success", label)
				}
				env.Stat("fault_sql_select_fails_in_refresh")
				break
			}
			label = "Refresh"
			if err := u.st.Refresh(); err != nil {
				env.Violate("C16/"+kind+"/error", "%s: %v", label, err)
			}
			if kind == "memory" {
				// documented no-op
			}
			structural++
			env.Stat("probe_refresh")
		case 9:
			if kind == "sql" && ch.Chance("resetfault", 1, 3) {
				// one of the statements of the reset is refused: the operation reports the error and changes nothing
				stmt := []string{"delete", "update"}[ch.Choose("resetfaultstmt", 2)]
				SQLFaults.Arm(stmt, 1)
				label = "Reset while the database refuses the " + stmt
				err := u.st.Reset()
				SQLFaults.Arm(stmt, 0)
				if err == nil {
					env.Violate("C16/sql/failure-swallowed", "%s reported success", label)
				}
				env.Stat("fault_sql_" + stmt + "_fails_in_reset")
				break
			}
			if kind == "file" && ch.Chance("resetdiskfault", 1, 4) {
				// the disk fails the first thing the reset does to it (syncing a file it is about to close): the
				// operation reports the error and changes nothing
				simos.Current().ArmWriteFault(1, simos.Fault{Err: errors.New("injected: input/output error")})
				label = "Reset while the disk fails the first sync"
				err := u.st.Reset()
				if simos.Current().DisarmWriteFault() {
					env.Fatalf("%s: the armed disk fault did not fire", label)
				}
				if err == nil {
					env.Violate("C16/file/failure-swallowed", "%s reported success", label)
				}
				env.Stat("fault_disk_sync_error_in_reset")
				break
			}
			label = "Reset"
			before := time.Now()
			if err := u.st.Reset(); err != nil {
				env.Violate("C16/"+kind+"/error", "%s: %v", label, err)
			}
			m.S, m.T, m.msgs, m.maxN, m.ctime = 1, 1, map[int][]byte{}, 0, time.Now()
			m.ctimeLo, m.ctimeHi, m.ctimePinned = before, time.Now(), false
			structural++
			env.Stat("probe_reset")
		case 10:
			if kind == "memory" {
				continue
			}
			label = "close and reopen through a fresh factory"
			if err := u.st.Close(); err != nil {
				env.Violate("C16/"+kind+"/error", "Close: %v", err)
			}
			st, err := u.factory()
			if err != nil {
				env.Violate("C16/"+kind+"/reopen", "reopen failed: %v", err)
				u.st = nil
				return
			}
			u.st = st
			structural++
			env.Stat("probe_reopen")
		case 11:
			d := time.Duration(1+ch.Choose("advance", 100000)) * time.Millisecond
			label = fmt.Sprintf("clock +%v", d)
			time.Sleep(d)
		}
		env.Note("%s: %s", u.sid.TargetCompID, label)
		u.check(env, label)
		// every other session sharing the backing store is untouched
		for _, o := range stores {
			if o != u {
				o.check(env, label+" on another session")
			}
		}
	}
	// final full read-back per session
	for _, u := range stores {
		if env.Failed() {
			break
		}
		got, err := u.st.GetMessages(0, u.m.maxN+10)
		if err != nil {
			env.Violate("C16/"+kind+"/error", "final GetMessages: %v", err)
			break
		}
		compareMsgs(env, kind, "final read-back of "+u.sid.TargetCompID, got, u.m.rangeOf(0, u.m.maxN+10))
	}
	env.Nontrivial = saves > 0 && readsWithData > 0 && structural > 0
	env.State(fmt.Sprintf("%s sessions=%d", kind, nsess))
}

func compareMsgs(env *Env, kind, label string, got, want [][]byte) {
	if len(got) != len(want) {
		env.Violate("C16/"+kind+"/messages", "%s returned %d messages, model %d", label, len(got), len(want))
		return
	}
	for i := range got {
		if !bytes.Equal(got[i], want[i]) {
			env.Violate("C16/"+kind+"/messages", "%s: message %d differs: %q vs model %q", label, i, clip(got[i]), clip(want[i]))
			return
		}
	}
}
