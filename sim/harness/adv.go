package harness

import (
	"fmt"
	"time"

	"github.com/quickfixgo/quickfix"

	"verifsim/wire"
)

// Adversarial peer workload shared by C01, C08 and C09: every action parameter is drawn by the
// chooser with 0 meaning the honest/simple choice, so shrinking drives runs toward honest behaviour.
// The workload may peek at the engine's counters to AIM its actions (below/at/above the expected
// number); oracles never do.

type AdvOpts struct {
	Steps       int
	AllowStop   bool // engine Stop() as an action (C08)
	AllowSends  bool // engine-side application sends
	AllowCuts   bool
	AppTypes    bool // inbound application messages are not only orders
	RejectApp   bool // application rejects some inbound messages
	Weights     []int
	AfterStep   func(label string)
	Corrupt     func(frame []byte) []byte // C09: in-flight corruption of what the peer sends
	HonestLogon bool                      // (re)logons are in sequence, without reset
}

type Adv struct {
	s      *Sut
	env    *Env
	o      AdvOpts
	hb     int
	sendN  int
	Logons int
}

func (a *Adv) engT() int {
	if st := a.s.E.Store(); st != nil {
		return st.inner.NextTargetMsgSeqNum()
	}
	return 1
}

func (a *Adv) engS() int {
	if st := a.s.E.Store(); st != nil {
		return st.inner.NextSenderMsgSeqNum()
	}
	return 1
}

// ensureSession (re)connects and logs on when there is no live connection. Returns false when
// the engine cannot be reached (stopped).
func (a *Adv) ensureSession() bool {
	p := a.s.P
	ch := a.env.Ch
	if p.Connected() {
		return true
	}
	if a.s.E.stopped {
		return false
	}
	p.EP = nil
	if !p.Connect(20 * time.Second) {
		return false
	}
	a.Logons++
	if a.o.HonestLogon {
		p.OutSeq = a.engT()
		mirror := false
		if a.s.E.Cfg.Initiator {
			if lg, ok := LastOfType(p.Recv, "A"); ok && lg.Conn == p.Conn && lg.Str(141) == "Y" {
				p.OutSeq = 1
				mirror = true
			}
		} else if a.s.E.Cfg.ResetOnLogon {
			p.OutSeq = 1
		}
		a.send("A", p.LogonBody(a.hb, mirror), MsgOpt{})
		return p.Connected()
	}
	reset := ch.Chance("logonreset", 1, 6) && a.s.E.Cfg.BeginString >= "FIX.4.1"
	o := MsgOpt{}
	switch ch.Weighted("logonseq", []int{8, 1, 1}) {
	case 1: // too high
		o.Seq = p.OutSeq + 1 + ch.Choose("logongap", 4)
		o.Advance = true
	case 2: // too low
		if p.OutSeq > 2 {
			o.Seq = 1
		}
	}
	if a.s.E.Cfg.Initiator {
		lg, ok := LastOfType(p.Recv, "A")
		if !ok || lg.Conn != p.Conn {
			return p.Connected()
		}
		if lg.Str(141) == "Y" {
			reset = true
		}
	}
	if reset {
		p.OutSeq = 1
		o = MsgOpt{}
	}
	a.env.Note("peer logon seq=%d reset=%v", map[bool]int{true: o.Seq, false: p.OutSeq}[o.Seq != 0], reset)
	lb := p.LogonBody(a.hb, reset)
	if a.s.E.Cfg.Extra["EnableNextExpectedMsgSeqNum"] == "Y" && ch.Chance("logon789", 2, 3) {
		// a counterparty that uses tag 789 as well: the number it expects next, honest, behind or ahead
		v := a.engS()
		switch ch.Choose("logon789value", 4) {
		case 1:
			v = 1
		case 2:
			v += 3
		}
		lb = append(lb, wire.FI(789, v))
		a.env.Stat("probe_adversary_logon_with_tag_789")
	}
	a.send("A", lb, o)
	return p.Connected()
}

// sendApp sends an application message: an order, or (option AppTypes, from FIX.4.2) now and then a
// BusinessMessageReject, which is an application message too.
func (a *Adv) sendApp(id string, o MsgOpt) []RecvMsg {
	if a.o.AppTypes && a.s.E.Cfg.BeginString >= "FIX.4.2" && a.env.Ch.Chance("apptype", 1, 6) {
		a.env.Stat("probe_inbound_business_reject")
		return a.send("j", []wire.Field{wire.F(45, "1"), wire.F(372, "D"), wire.F(380, "0"), wire.F(58, id)}, o)
	}
	return a.send("D", AppBody(id), o)
}

func (a *Adv) send(t string, body []wire.Field, o MsgOpt) []RecvMsg {
	p := a.s.P
	b, _ := p.Build(t, body, o)
	if a.o.Corrupt != nil {
		b = a.o.Corrupt(b)
	}
	return p.SendRaw(b, o)
}

// Step performs one adversarial action. Returns a label.
func (a *Adv) Step() string {
	env, ch, p := a.env, a.env.Ch, a.s.P
	if !a.ensureSession() {
		return "unreachable"
	}
	T := a.engT()
	w := a.o.Weights
	if w == nil {
		w = []int{10, 5, 2, 3, 2, 3, 2, 4, 3, 3, 2, 2, 4, 1, 3, 1}
	}
	if !a.o.AllowSends {
		w = append([]int(nil), w...)
		w[14] = 0
	}
	if !a.o.AllowStop {
		w = append([]int(nil), w...)
		w[15] = 0
	}
	if !a.o.AllowCuts {
		w = append([]int(nil), w...)
		w[13] = 0
	}
	label := ""
	switch ch.Weighted("adv", w) {
	case 0: // application message at the peer's own next number (honest)
		id := p.NextID()
		label = fmt.Sprintf("app %s seq=%d (T=%d)", id, p.OutSeq, T)
		o := MsgOpt{}
		if a.o.AppTypes && ch.Chance("numberless", 1, 8) {
			// a message whose MsgSeqNum is missing or unreadable carries no number: whatever the reaction,
			// it is not the expected one (the peer does not use up a number of its own for it either)
			o = MsgOpt{Seq: p.OutSeq, NoSeq: true}
			if ch.Chance("garblednumber", 1, 2) {
				o.NoSeq, o.SeqLiteral = false, []string{"1x", "abc"}[ch.Choose("badseq", 2)]
			}
			label += " without a usable MsgSeqNum"
			env.Stat("fault_numberless_message")
		}
		a.sendApp(id, o)
	case 1: // application message too high
		k := 1 + ch.Choose("skip", 5)
		p.OutSeq += k
		id := p.NextID()
		label = fmt.Sprintf("app %s seq=%d skipping %d (T=%d)", id, p.OutSeq, k, T)
		o := MsgOpt{}
		if a.o.AppTypes && ch.Chance("toohighanddefective", 1, 4) {
			// ahead of the expected number AND without SendingTime: whatever the reaction, the message does
			// not carry the expected number
			o.NoTime = true
			label += " no SendingTime"
		}
		a.sendApp(id, o)
		env.Stat("fault_sequence_gap")
	case 2: // too low without PossDup
		if T <= 1 {
			return "noop"
		}
		n := 1 + ch.Choose("low", T-1)
		id := p.NextID()
		label = fmt.Sprintf("app %s seq=%d too low, no PossDup (T=%d)", id, n, T)
		a.sendApp(id, MsgOpt{Seq: n})
		env.Stat("fault_too_low")
	case 3: // possible duplicate, exactly at / below / above T
		n := T + ch.Choose("dupoff", 4) - 1
		if n < 1 {
			n = 1
		}
		o := MsgOpt{Seq: n, PossDup: true}
		if ch.Chance("noorig", 1, 4) {
			o.NoOrigTime = true
		}
		if ch.Chance("origlater", 1, 6) {
			o.OrigDelta = 5 * time.Second
		}
		id := p.NextID()
		label = fmt.Sprintf("app %s seq=%d PossDup noOrig=%v origDelta=%v (T=%d)", id, n, o.NoOrigTime, o.OrigDelta, T)
		if n >= p.OutSeq {
			o.Advance = true
		}
		a.sendApp(id, o)
		env.Stat("fault_possdup")
	case 4: // heartbeat, honest number
		label = fmt.Sprintf("heartbeat seq=%d (T=%d)", p.OutSeq, T)
		o := MsgOpt{}
		if a.o.AppTypes && ch.Chance("numberless", 1, 6) {
			o = MsgOpt{Seq: p.OutSeq, NoSeq: true}
			label += " without MsgSeqNum"
			env.Stat("fault_numberless_message")
		}
		a.send("0", nil, o)
	case 5: // test request
		id := "TR" + p.NextID()
		label = fmt.Sprintf("testrequest %s seq=%d (T=%d)", id, p.OutSeq, T)
		a.send("1", []wire.Field{wire.F(112, id)}, MsgOpt{})
	case 6: // gap fill relative to T
		n := T
		if ch.Chance("fillseq", 1, 4) {
			n = T + ch.Choose("fillseqoff", 3) - 1
			if n < 1 {
				n = 1
			}
		}
		to := n + 1 + ch.Choose("fillto", 6)
		if ch.Chance("fillback", 1, 5) {
			to = n - ch.Choose("fillbackby", 3)
			if to < 1 {
				to = 1
			}
		}
		o := MsgOpt{Seq: n, PossDup: ch.Choose("fillpd", 4) != 1}
		label = fmt.Sprintf("gapfill seq=%d -> %d possdup=%v (T=%d)", n, to, o.PossDup, T)
		a.send("4", []wire.Field{wire.F(123, "Y"), wire.FI(36, to)}, o)
		if to > p.OutSeq {
			p.OutSeq = to
		}
		env.Stat("fault_gapfill")
	case 7: // sequence reset, reset mode: any MsgSeqNum, NewSeqNo anywhere
		n := T + ch.Choose("rsseq", 7) - 3
		if n < 1 {
			n = 1
		}
		to := T + ch.Choose("rsto", 9) - 3
		if to < 1 {
			to = 1
		}
		body := []wire.Field{wire.FI(36, to)}
		if ch.Chance("rsflagN", 1, 3) {
			body = append([]wire.Field{wire.F(123, "N")}, body...)
		}
		label = fmt.Sprintf("sequencereset-reset seq=%d -> %d (T=%d)", n, to, T)
		a.send("4", body, MsgOpt{Seq: n})
		if to > T {
			p.OutSeq = to
		}
		env.Stat("fault_sequence_reset")
	case 8: // resend request over what the engine has sent
		S := a.engS()
		b := 1 + ch.Choose("rrb", S+1)
		e := 0
		switch ch.Choose("rre", 4) {
		case 1:
			e = b + ch.Choose("rrlen", 5)
		case 2:
			e = 999999
		case 3:
			e = b - 1
		}
		o := MsgOpt{}
		switch ch.Weighted("rrseq", []int{6, 2, 1}) {
		case 1: // the request's own number is below the expected one (a stale or replayed request)
			if T > 1 {
				o.Seq = 1 + ch.Choose("rrlow", T-1)
				o.PossDup = ch.Chance("rrpossdup", 1, 2)
			}
		case 2: // ... or ahead of it
			o.Seq = T + 1 + ch.Choose("rrhigh", 3)
			o.Advance = true
		}
		label = fmt.Sprintf("resendrequest %d..%d seq=%d (S=%d T=%d)", b, e, map[bool]int{true: p.OutSeq, false: o.Seq}[o.Seq == 0], S, T)
		a.send("2", []wire.Field{wire.FI(7, b), wire.FI(16, e)}, o)
		env.Stat("probe_peer_resend_request")
	case 9: // logout by the peer
		label = fmt.Sprintf("logout seq=%d (T=%d)", p.OutSeq, T)
		a.send("5", nil, MsgOpt{})
		env.Stat("probe_peer_logout")
	case 10: // logon inside the session
		reset := ch.Chance("inlogonreset", 1, 2) && a.s.E.Cfg.BeginString >= "FIX.4.1"
		if reset {
			p.OutSeq = 1
		} else if a.s.E.Cfg.ResetOnLogon && !a.s.E.Cfg.Initiator && ch.Chance("inlogonrenumber", 2, 3) {
			// the counterparty knows that this acceptor begins a new numbering with every Logon it accepts
			// (ResetOnLogon) and numbers from 1 again without saying so
			p.OutSeq = 1
		}
		label = fmt.Sprintf("logon in session seq=%d reset=%v (T=%d)", p.OutSeq, reset, T)
		a.send("A", p.LogonBody(a.hb, reset), MsgOpt{})
		env.Stat("probe_logon_in_session")
	case 11: // replay of the number the engine is waiting for
		id := p.NextID()
		label = fmt.Sprintf("replay app %s seq=%d PossDup (T=%d)", id, T, T)
		o := MsgOpt{Seq: T, PossDup: true}
		if T >= p.OutSeq {
			o.Advance = true
		}
		a.sendApp(id, o)
	case 12: // silence
		k := 1 + ch.Choose("silence", 26)
		d := time.Duration(k) * time.Duration(a.hb) * time.Second / 10
		label = fmt.Sprintf("silence %v", d)
		env.Advance(d)
		p.Collect()
		env.Stat("fault_peer_silence")
	case 13: // cut
		label = "peer drops the connection"
		p.Drop()
		env.Stat("fault_connection_cut")
	case 14: // engine-side send
		a.sendN++
		id := fmt.Sprintf("e%d", a.sendN)
		label = "engine app send " + id
		a.s.E.Send("D", AppBody(id))
		env.Settle()
		p.Collect()
	case 15: // stop
		label = "engine stop"
		a.s.E.StopAsync()
		env.Settle()
		p.Collect()
		env.Stat("fault_engine_stop")
	}
	env.Note("%s", label)
	if a.o.AfterStep != nil {
		a.o.AfterStep(label)
	}
	return label
}

// NewAdv logs the session on and returns the workload driver.
func NewAdv(s *Sut, hb int, o AdvOpts) *Adv {
	a := &Adv{s: s, env: s.Env, o: o, hb: hb}
	if o.RejectApp {
		seed := s.Env.Seed
		s.E.App.RejectFromApp = func(c AppCall) quickfix.MessageRejectError {
			h := mix(seed, uint64(c.Seq), uint64(len(c.ID)))
			switch h % 7 {
			case 0:
				return quickfix.ValueIsIncorrect(quickfix.Tag(55))
			case 1:
				return quickfix.NewBusinessMessageRejectError("refused", 4, nil)
			}
			return nil
		}
	}
	return a
}
