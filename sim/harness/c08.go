package harness

import (
	"github.com/quickfixgo/quickfix/verifsim/simsync"
	"fmt"
	"sort"
	"time"

	"verifsim/wire"
)

// C08 — application traffic flows only inside a completed logon.
//
// Pure observation, per connection (one simnet endpoint = one connection): the wire as written,
// the close, and the Application callback stream, ordered by global event number.

func init() {
	Register(&Property{ID: "C08", Run: runC08,
		Rule: "one real engine under the adversarial workload with all event kinds: inbound messages of every type and sequence relation, application sends at any step (also while disconnected), peer silence so that heartbeat/peer/logon/logout timers fire, cuts, Stop at any step, re-logons; both roles. Per-connection envelope monitor; store refusals at any step; connections whose first message is not a Logon; a slow application callback with a second frame waiting in the inbound channel behind a message that ends the session; the application sending from inside its inbound callbacks; the store refusing the write that counts an inbound message; a third of the runs with the order in which the session loop serves its ready sources fixed by the simulator: callbacks of up to 2.6 heartbeat intervals while a frame waits and timers fall due, sends from callbacks while a frame waits. Non-trivial: at least one completed logon and one ended connection with application traffic in the run; distinct: canonical trace hash"})
}

// CheckC08 evaluates the envelope monitor over everything recorded so far. final: the run is over
// (all connections have ended or will not be used again).
func CheckC08(env *Env, s *Sut, final bool) (logons, ends int) {
	type ev struct {
		n    int
		kind string // callback kind, "write", "close", "open"
		conn *ConnRec
		w    *WireRec
		app  *AppCall
	}
	var evs []ev
	for _, cr := range s.CL.All() {
		ws, closeN := cr.Snapshot()
		evs = append(evs, ev{n: cr.OpenN, kind: "open", conn: cr})
		for i := range ws {
			evs = append(evs, ev{n: ws[i].N, kind: "write", conn: cr, w: &ws[i]})
		}
		if closeN > 0 {
			evs = append(evs, ev{n: closeN, kind: "close", conn: cr})
		}
		if cr.EP.WriteAfterClose > 0 {
			env.Violate("C08/write-after-close", "%d writes were issued on connection %d after the engine had closed it", cr.EP.WriteAfterClose, cr.ID)
		}
		// (a) first message transmitted is a Logon or a Logout
		if len(ws) > 0 && ws[0].OK {
			if t := ws[0].Msg.Type(); t != "A" && t != "5" {
				env.Violate("C08/first-message", "first message on connection %d is 35=%s: %q", cr.ID, t, ws[0].Frame)
			}
		}
	}
	apps := s.E.App.Snapshot()
	for i := range apps {
		evs = append(evs, ev{n: apps[i].N, kind: apps[i].Kind, app: &apps[i]})
	}
	sort.Slice(evs, func(i, j int) bool { return evs[i].n < evs[j].n })

	loggedOn := false   // between OnLogon and OnLogout in the callback stream
	var cur *ConnRec    // connection open right now (connections of one session are sequential)
	logonOnCur := false // OnLogon seen for cur
	logoutSentOnCur := false
	logoutsOnCur := 0
	sawAppTraffic := false
	for _, e := range evs {
		switch e.kind {
		case "open":
			// a second connection while one is up is refused by the engine without touching the session;
			// keep attributing callbacks to the first
			if cur == nil {
				cur = e.conn
				logonOnCur, logoutSentOnCur, logoutsOnCur = false, false, 0
			}
		case "close":
			if e.conn == cur {
				if loggedOn {
					env.Violate("C08/missing-logout", "connection %d ended while the application still believes it is logged on (no OnLogout)", cur.ID)
					loggedOn = false
				}
				cur = nil
				ends++
			}
		case "write":
			if !e.w.OK {
				continue
			}
			m := e.w.Msg
			if e.conn != cur {
				if t := m.Type(); t != "5" && t != "A" {
					env.Violate("C08/write-on-refused-connection", "35=%s written on connection %d which never became the session's connection", t, e.conn.ID)
				}
				continue
			}
			if m.Type() == "5" {
				logoutSentOnCur = true
			}
			if !m.IsAdmin() && !m.PossDup() {
				sawAppTraffic = true
				if !logonOnCur {
					env.Violate("C08/app-before-logon", "application message 34=%d transmitted on connection %d before the logon handshake completed", m.Seq(), cur.ID)
				} else if logoutSentOnCur {
					env.Violate("C08/app-after-logout", "application message 34=%d transmitted for the first time on connection %d after the engine's Logout", m.Seq(), cur.ID)
				}
			}
		case "OnLogon":
			// a Logon inside the session (sequence reset by Logon) is notified again; the statement
			// does not forbid that, the logged-on period simply continues
			loggedOn = true
			logons++
			if cur != nil {
				logonOnCur = true
			}
		case "OnLogout":
			loggedOn = false
			if cur != nil {
				logoutsOnCur++
				if logoutsOnCur > 1 {
					env.Violate("C08/double-logout", "%d logout notifications for connection %d", logoutsOnCur, cur.ID)
				}
			}
		case "FromApp":
			sawAppTraffic = true
			if !loggedOn {
				env.Violate("C08/delivery-outside-logon", "FromApp (34=%d) outside the interval between the logon and the logout notification", e.app.Seq)
			}
		}
	}
	if final && loggedOn && cur == nil {
		env.Violate("C08/missing-logout", "run ended with the application logged on and no connection")
	}
	if sawAppTraffic && logons > 0 && ends > 0 {
		env.Nontrivial = true
	}
	return
}

func runC08(env *Env, tier string) {
	ch := env.Ch
	c := DrawBaseCfg(env)
	hb := []int{5, 30, 2}[ch.Choose("hb", 3)]
	c.HeartBtInt = hb
	if c.Initiator {
		c.LogonTimeout = []int{11, 3, 8}[ch.Choose("logontimeout", 3)]
		c.LogoutTimeout = []int{7, 1, 4}[ch.Choose("logouttimeout", 3)]
	}
	if ch.Chance("chunk", 1, 3) {
		c.ChunkSize = 1 + ch.Choose("chunksize", 4)
	}
	c.ResetOnLogon = ch.Chance("ResetOnLogon", 1, 6)
	c.ResetOnLogout = ch.Chance("ResetOnLogout", 1, 6)
	c.ResetOnDisconnect = ch.Chance("ResetOnDisconnect", 1, 6)
	// a third of the runs: the simulator decides which READY source the session loop serves (select gate, one
	// polling order for the run). R1 is then not needed for that select: a callback may take longer than the
	// timers' periods, frames may wait while timers fire, the application may send while a frame waits.
	c08Crowded = false
	if ch.Chance("crowdedselect", 1, 3) {
		orders := [][]int{{3, 2, 1, 0, 4}, {2, 3, 1, 0, 4}, {1, 3, 2, 0, 4}, {0, 2, 3, 1, 4}, {4, 1, 2, 3, 0}, {3, 1, 0, 2, 4}}
		o := orders[ch.Choose("selectorder", len(orders))]
		simsync.SetSelectOrder(o)
		env.OnCleanup(func() { simsync.SetSelectOrder(nil); c08Crowded = false })
		c08Crowded = true
		env.Cfg["selectorder"] = fmt.Sprint(o)
		env.Stat("probe_select_order_decided_by_simulator")
	}
	s := StartSut(env, c)
	a := NewAdv(s, hb, AdvOpts{AllowCuts: true, AllowSends: true, AllowStop: true,
		Weights: []int{8, 3, 2, 2, 2, 2, 2, 2, 2, 3, 2, 2, 6, 3, 8, 1}})
	if ch.Chance("sendsfromcallbacks", 1, 3) {
		// the application answers from inside its inbound callbacks (on the session's goroutine), which
		// messages it answers is decided by their identity
		k := 2 + ch.Choose("callbacksendmod", 3)
		cbN := 0
		s.E.App.OnCall = func(c AppCall) {
			// (not while a second frame is waiting behind the one being handled: the wake-up for the queued
			// message and the waiting frame would be two ready sources for the session's select - R1)
			if (c.Kind == "FromAdmin" || c.Kind == "FromApp") && (!c08PairInFlight || c08Crowded) && (c.Seq+len(c.Type)+len(c.ID))%k == 0 {
				cbN++
				env.Stat("probe_send_from_callback")
				s.E.Send("D", AppBody(fmt.Sprintf("cb%d", cbN)))
			}
		}
	}
	steps := 10 + ch.Choose("steps", 80)
	for i := 0; i < steps && !env.Failed(); i++ {
		// application sends also while disconnected / before logon
		if ch.Chance("sendanytime", 1, 6) {
			a.sendN++
			id := fmt.Sprintf("q%d", a.sendN)
			env.Note("engine app send %s (connected=%v)", id, s.P.Connected())
			s.E.Send("D", AppBody(id))
			env.Settle()
			s.P.Collect()
			env.Stat("probe_send_any_time")
		}
		// the store refuses the next write that assigns an outbound number (disk full, database gone):
		// whatever the engine was about to send cannot be sent
		if ch.Chance("storerefusal", 1, 12) {
			fired := false
			onlyInbound := ch.Chance("refuseinboundcounter", 1, 2) // ... or the write that counts an inbound message
			s.E.SF.Fail = func(op string, n int) error {
				if fired || onlyInbound != (op == "IncrTarget") {
					return nil
				}
				fired = true
				env.Stat("fault_store_write_refused")
				return fmt.Errorf("injected: store refuses %s %d", op, n)
			}
		} else {
			s.E.SF.Fail = nil
		}
		// a connection whose first message is not a Logon
		if !s.P.Connected() && !s.E.stopped && ch.Chance("nonlogonfirst", 1, 5) {
			c08NonLogonFirst(env, s, a)
			continue
		}
		if ch.Chance("pipelinedpair", 1, 6) && a.ensureSession() && s.E.App.LoggedOn() {
			c08PipelinedPair(env, s, a)
			continue
		}
		if a.Step() == "unreachable" {
			break
		}
		if i%8 == 7 {
			CheckC08(env, s, false)
		}
	}
	s.E.SF.Fail = nil
	// let pending logout/logon timers run out, then judge
	env.Advance(3 * 1e9)
	s.P.Collect()
	lo, en := CheckC08(env, s, false)
	env.State(fmt.Sprintf("logons=%d ends=%d stopped=%v", min(lo, 3), min(en, 3), s.E.stopped))
}

// c08PipelinedPair sends two messages back to back while the application is slow handling the first: the
// second waits in the session's inbound channel while the first is processed. The first is one that makes
// the engine end the connection itself (or an ordinary message, as a control); the second is an
// application message in sequence behind it.
// c08PairInFlight is set while c08PipelinedPair has two frames under way (one worker runs one run at a time).
var c08PairInFlight bool

// c08Crowded: this run has a select order set (several ready sources are allowed).
var c08Crowded bool

func c08PipelinedPair(env *Env, s *Sut, a *Adv) {
	ch, p := env.Ch, s.P
	// keep every engine timer out of the window in which the second message is waiting (two ready sources
	// for the session's select would be decided by Go, not by the simulator: R1)
	slow := 5 * time.Millisecond
	if c08Crowded {
		// no quiet window: timers may fall due while the frames wait, and the callback may outlast them
		hbd := time.Duration(s.E.Cfg.HeartBtInt) * time.Second
		slow = []time.Duration{5 * time.Millisecond, 700 * time.Millisecond, hbd * 13 / 10, hbd * 26 / 10}[ch.Choose("pairslow", 4)]
		env.Stat("probe_pipelined_pair_with_timers_falling_due")
	} else {
		env.QuietWindow(30 * time.Millisecond)
	}
	p.Collect()
	if !p.Connected() || !s.E.App.LoggedOn() {
		return
	}
	T := a.engT()
	p.OutSeq = T
	kind := ch.Choose("pairfirst", 6)
	var x []byte
	switch kind {
	case 0: // Logout
		x, _ = p.Build("5", nil, MsgOpt{})
	case 1: // stale SendingTime: Reject + Logout
		x, _ = p.Build("D", AppBody(p.NextID()), MsgOpt{TimeDelta: -10 * time.Minute})
	case 2: // wrong TargetCompID: Reject + Logout
		wrong := "NOBODY"
		x, _ = p.Build("D", AppBody(p.NextID()), MsgOpt{Target: &wrong})
	case 3: // too low without PossDup: Logout
		if T > 2 {
			x, _ = p.Build("D", AppBody(p.NextID()), MsgOpt{Seq: 1})
		} else {
			x, _ = p.Build("0", nil, MsgOpt{})
		}
	case 4: // ordinary application message (control)
		x, _ = p.Build("D", AppBody(p.NextID()), MsgOpt{})
	case 5: // TestRequest (control, administrative)
		x, _ = p.Build("1", []wire.Field{wire.F(112, "PP"+p.NextID())}, MsgOpt{})
	}
	y, _ := p.Build("D", AppBody(p.NextID()), MsgOpt{})
	env.Stat("probe_pipelined_pair_" + []string{"logout", "staletime", "compid", "toolow", "app", "testrequest"}[kind])
	s.E.App.SlowNext.Store(int64(slow))
	c08PairInFlight = true
	defer func() { c08PairInFlight = false }()
	env.Rec(fmt.Sprintf("peer>:%d", p.Conn), "peer>", string(x), true)
	p.EP.Feed(x)
	env.Settle()
	if !p.EP.IsClosed() {
		env.Rec(fmt.Sprintf("peer>:%d", p.Conn), "peer>", string(y), true)
		p.EP.Feed(y)
		env.Settle()
	}
	env.Advance(slow + 15*time.Millisecond)
	env.AddAnchor()
	s.E.App.SlowNext.Store(0)
	p.Collect()
}

// c08NonLogonFirst opens a connection and sends something other than a Logon first (for an initiator: in
// answer to its Logon), well-formed or failing verification in an ordinary way.
func c08NonLogonFirst(env *Env, s *Sut, a *Adv) {
	ch, p := env.Ch, s.P
	p.EP = nil
	if !p.Connect(20 * time.Second) {
		return
	}
	p.OutSeq = a.engT()
	o := MsgOpt{}
	switch ch.Choose("firstdefect", 4) {
	case 1:
		o.NoTime = true // SendingTime missing: an ordinary session-level reject reason
	case 2:
		o.BadTime = "yesterday"
	case 3:
		o.PossDup, o.NoOrigTime = true, true
	}
	kind := ch.Choose("firstkind", 5)
	env.Stat("probe_first_message_not_logon_" + []string{"logout", "app", "testrequest", "heartbeat", "resendrequest"}[kind])
	switch kind {
	case 0:
		p.Send("5", nil, o)
	case 1:
		p.Send("D", AppBody(p.NextID()), o)
	case 2:
		p.Send("1", []wire.Field{wire.F(112, "F"+p.NextID())}, o)
	case 3:
		p.Send("0", nil, o)
	case 4:
		p.Send("2", []wire.Field{wire.FI(7, 1), wire.FI(16, 0)}, o)
	}
	// whatever state the engine is in now, the application and the peer carry on
	if p.Connected() {
		if ch.Chance("sendafterfirst", 1, 2) {
			a.sendN++
			s.E.Send("D", AppBody(fmt.Sprintf("q%d", a.sendN)))
			env.Settle()
		}
		p.OutSeq = a.engT()
		p.Send("D", AppBody(p.NextID()), MsgOpt{})
	}
	p.Collect()
}
