package harness

import (
	"fmt"
	"sort"
	"time"

	"github.com/quickfixgo/quickfix/verifsim/simsync"
	"verifsim/wire"
)

// C20 — keep-alive: heartbeats, test requests and dead-peer disconnect, on the real run loop with
// the real timers on simulated time.

func init() {
	Register(&Property{ID: "C20", Run: runC20,
		Rule: "one real engine (acceptor or initiator, HeartBtInt 1-60 s from the peer's Logon, the configuration or HeartBtIntOverride) logged on to the stub peer; 8-40 steps drawn from {peer silence of 0.1-5 intervals, in-sequence Heartbeat/TestRequest/application message, sequence gap, gap fill, engine-side application send}; timing oracle evaluated after every step; slow answers (up to 1.4 intervals) to an initiator's Logon; final phase in a fifth of the runs: the counterparty stops reading AND sending (writes on the connection block) - disconnect and OnLogout by 2.4 intervals, connection closed in the end; or (a quarter of the rest) a burst of 2-3 application messages in one read handled by an application that takes 0.3-2 intervals per callback, then silence, with the order in which the session loop serves its ready sources fixed per run by the simulator - OnLogout by 2.4 intervals after the last callback returned; or (HeartBtInt up to 10 s) a session held up again and again (inbound callbacks of 0.5-1.1 intervals, slow ToAdmin) facing a counterparty that sends a Heartbeat every 0.4-1 intervals and answers every TestRequest at once - no dead-peer disconnect earlier than 1.2 intervals after the TestRequest reached the wire, none within 1.2 intervals of a message handed to the application. Non-trivial: at least one timer-driven write (Heartbeat or TestRequest) happened or a TestRequest was answered; distinct: canonical trace hash"})
}

type kaEvent struct {
	n      int
	at     time.Time
	engine bool // engine write (else inbound to engine)
	typ    string
	id     string
}

// kaMonitor is the timing oracle. It is fed the merged wire stream of one logged-on period.
type kaMonitor struct {
	env     *Env
	hb      time.Duration
	slack   time.Duration
	lastIn  time.Time
	lastOut time.Time // last engine write of this logged-on period
	needBy  time.Time // a write is required by then (zero: no requirement, test request pending)
	pending bool      // engine has a TestRequest outstanding
	trAt    time.Time
	everPending bool
	timerWrites int
	done    int // events consumed
	closed  bool
	closedAt time.Time
	expectClose bool // the workload did something that legitimately ends the connection
}

func (m *kaMonitor) start(at time.Time) {
	m.lastIn = at
	m.lastOut = at
	m.needBy = at.Add(m.hb + m.slack)
}

func (m *kaMonitor) onEvent(e kaEvent) {
	if e.engine {
		if !m.needBy.IsZero() && e.at.After(m.needBy) {
			m.heartbeatMissing(e.at)
		}
		if e.typ == "0" && e.id == "" && !m.lastOut.IsZero() {
			// "when nothing has been sent for the heartbeat interval a Heartbeat is sent": a Heartbeat that
			// answers no TestRequest is justified only by an interval without any send
			if idle := e.at.Sub(m.lastOut); idle < m.hb-m.slack {
				m.env.Violate("C20/heartbeat-early", "Heartbeat written only %v after the previous send, interval %v", idle, m.hb)
			}
		}
		m.lastOut = e.at
		if e.typ == "5" {
			// The engine logs out for a reason of its own (session-level reaction to what the peer
			// sent); ending the connection is then not a keep-alive matter.
			m.expectClose = true
		}
		if e.typ == "1" {
			// TestRequest: justified only by 1.2 intervals of inbound silence
			sil := e.at.Sub(m.lastIn)
			if sil < time.Duration(1.2*float64(m.hb))-m.slack {
				m.env.Violate("C20/testrequest-early", "TestRequest written after only %v of inbound silence, interval %v", sil, m.hb)
			}
			m.pending = true
			m.everPending = true
			m.trAt = e.at
			m.needBy = time.Time{}
			m.timerWrites++
			m.env.Stat("probe_testrequest_sent")
			return
		}
		if !m.pending {
			m.needBy = e.at.Add(m.hb + m.slack)
		}
		return
	}
	// inbound
	if m.pending {
		m.pending = false
		// The exemption lasts as long as the test request is pending, no longer: a Heartbeat that fell due in
		// the meantime is due now (the reaction to this very message is the engine's first opportunity).
		m.needBy = m.lastOut.Add(m.hb + m.slack)
		if due := e.at.Add(m.slack); due.After(m.needBy) {
			m.needBy = due
			m.env.Stat("probe_heartbeat_overdue_when_pending_ends")
		}
		m.env.Stat("probe_pending_cancelled")
	}
	m.lastIn = e.at
}

func (m *kaMonitor) heartbeatMissing(at time.Time) {
	fp := "C20/heartbeat-missing"
	if m.everPending {
		fp += "/after-testrequest-pending"
	}
	m.env.Violate(fp, "no write for %v (> interval %v) while logged on and no test request pending", at.Sub(m.needBy.Add(-m.hb-m.slack)), m.hb)
}

// atQuiescence checks the obligations that are due at simulated instant now.
func (m *kaMonitor) atQuiescence(now time.Time) {
	if m.closed {
		return
	}
	if !m.needBy.IsZero() && now.After(m.needBy) {
		m.heartbeatMissing(now)
	}
	trDue := m.lastIn.Add(time.Duration(1.2*float64(m.hb)) + m.slack)
	if !m.pending && now.After(trDue) {
		m.env.Violate("C20/testrequest-missing", "no TestRequest although nothing was received for %v (interval %v)", now.Sub(m.lastIn), m.hb)
	}
	if m.pending {
		dcDue := m.trAt.Add(time.Duration(1.2*float64(m.hb)) + m.slack)
		if now.After(dcDue) {
			m.env.Violate("C20/dead-peer-not-disconnected", "TestRequest unanswered for %v (interval %v) and the connection is still open", now.Sub(m.trAt), m.hb)
		}
	}
}

func (m *kaMonitor) onClose(at time.Time, logoutNotified bool) {
	m.closed = true
	m.closedAt = at
	if m.expectClose {
		return
	}
	if !m.pending {
		m.env.Violate("C20/unexpected-disconnect", "engine closed the connection %v after the last inbound message with no test request pending", at.Sub(m.lastIn))
		return
	}
	if at.Sub(m.trAt) < time.Duration(1.2*float64(m.hb))-m.slack {
		m.env.Violate("C20/disconnect-early", "disconnected %v after the TestRequest, interval %v", at.Sub(m.trAt), m.hb)
	}
	if !logoutNotified {
		m.env.Violate("C20/no-logout-notification", "dead-peer disconnect without OnLogout")
	}
	m.env.Stat("probe_dead_peer_disconnect")
}

func runC20(env *Env, tier string) {
	ch := env.Ch
	c := DrawBaseCfg(env)
	hbChoices := []int{30, 1, 2, 3, 5, 10, 20, 45, 60}
	hb := hbChoices[ch.Choose("hb", len(hbChoices))]
	peerHB := hb
	if c.Initiator {
		c.HeartBtInt = hb
	} else if ch.Chance("hboverride", 1, 4) {
		c.HBOverride = true
		c.HeartBtInt = hb
		peerHB = hbChoices[ch.Choose("peerhb", len(hbChoices))] // announced but overridden
	}
	if ch.Chance("chunk", 1, 4) {
		c.ChunkSize = 1 + ch.Choose("chunksize", 4)
	}
	s := StartSut(env, c)
	p := s.P
	conns := 1 + ch.Choose("connections", 3)
	for conn := 0; conn < conns && !env.Failed(); conn++ {
	if conn > 0 {
		// a further connection on the same session object; an acceptor without override must follow
		// the interval announced in THIS Logon
		if p.Connected() {
			p.Drop()
		}
		p.EP = nil
		env.Advance(time.Duration(500+ch.Choose("pause", 4000)) * time.Millisecond)
		if !c.Initiator && !c.HBOverride {
			hb = hbChoices[ch.Choose("nexthb", len(hbChoices))]
			peerHB = hb
		}
		p.OutSeq = NewAdv(s, hb, AdvOpts{}).engT()
		env.Stat("probe_relogon_same_session")
	}
	// a slow counterparty: the answer to an initiator's Logon takes up to 1.4 intervals (within LogonTimeout)
	s.LogonAnswerDelay = 0
	if c.Initiator && ch.Chance("slowlogonanswer", 1, 3) {
		d := time.Duration(hb) * time.Second * time.Duration(3+ch.Choose("answerdelay", 12)) / 10
		if d > 3400*time.Millisecond {
			d = 3400 * time.Millisecond
		}
		s.LogonAnswerDelay = d
		env.Stat("fault_slow_logon_answer")
	}
	lg, ok := s.Logon(peerHB, false)
	if !ok {
		if conn > 0 {
			break // e.g. the initiator's logon attempt was aborted by its own stale logon timer
		}
		env.Fatalf("logon failed: %v", p.Recv)
	}
	// "An acceptor uses the interval announced in the peer's Logon unless configured to override it"
	if got := lg.IntOr(108, -1); got != hb {
		env.Violate("C20/logon-interval", "engine's Logon announces HeartBtInt %d, expected %d", got, hb)
	}
	env.Cfg["hb"] = hb
	m := &kaMonitor{env: env, hb: time.Duration(hb) * time.Second}
	m.slack = m.hb/10 + 10*time.Millisecond
	m.start(time.Now())
	m.lastOut = lg.At // the engine's own Logon is its last send so far (an initiator sent it before the peer answered)
	m.needBy = lg.At.Add(m.hb + m.slack)
	if now := time.Now(); s.LogonAnswerDelay > 0 {
		// the interval without a send may already be over when the session is finally established: a
		// Heartbeat is then due within one interval of that moment at the latest
		m.needBy = now.Add(m.hb + m.slack)
	}
	sentN, recvN := len(p.Sent), len(p.Recv)
	appCalls := 0

	feed := func() {
		p.Collect()
		var evs []kaEvent
		for _, x := range p.Sent[sentN:] {
			evs = append(evs, kaEvent{n: x.N, at: x.At, typ: x.Type()})
		}
		for _, x := range p.Recv[recvN:] {
			evs = append(evs, kaEvent{n: x.N, at: x.At, engine: true, typ: x.Type(), id: x.Str(112)})
		}
		sentN, recvN = len(p.Sent), len(p.Recv)
		sort.Slice(evs, func(i, j int) bool { return evs[i].n < evs[j].n })
		for _, e := range evs {
			m.onEvent(e)
		}
		if !m.closed && p.EP.IsClosed() {
			logout := false
			for _, a := range s.E.App.Snapshot()[appCalls:] {
				if a.Kind == "OnLogout" {
					logout = true
				}
			}
			m.onClose(p.EP.ClosedAt, logout)
		}
		m.atQuiescence(time.Now())
	}

	modelT := p.OutSeq // engine's next expected inbound number, by the peer's own bookkeeping
	gapOpen := false
	gapEnd := 0 // first stashed number while a gap is open
	rrSeen := 0
	steps := 8 + ch.Choose("steps", 33)
	for i := 0; i < steps && !m.closed && !m.expectClose && !env.Failed(); i++ {
		before := len(p.Recv)
		switch ch.Weighted("step", []int{6, 3, 3, 2, 1, 2, 1}) {
		case 0: // silence
			k := 1 + ch.Choose("silence", 50) // tenths of an interval
			total := time.Duration(k) * m.hb / 10
			env.Note("silence %v", total)
			stepd := m.hb / 4
			for total > 0 && !m.closed && !env.Failed() {
				d := stepd
				if d > total {
					d = total
				}
				env.Advance(d)
				total -= d
				feed()
			}
			env.Stat("fault_peer_silence")
		case 1: // in-sequence heartbeat (too high while a gap is open)
			env.Note("peer heartbeat seq=%d", p.OutSeq)
			p.Send("0", nil, MsgOpt{})
			if !gapOpen {
				modelT++
			}
			feed()
		case 2: // TestRequest, in sequence
			id := "TR" + p.NextID()
			var r []RecvMsg
			if gapOpen {
				// in sequence during recovery: carries the missing number as a possible duplicate
				env.Note("peer TestRequest %s seq=%d PossDup (recovering)", id, modelT)
				r = p.Send("1", []wire.Field{wire.F(112, id)}, MsgOpt{Seq: modelT, PossDup: true})
				env.Stat("probe_testrequest_while_recovering")
			} else {
				env.Note("peer TestRequest %s seq=%d", id, p.OutSeq)
				r = p.Send("1", []wire.Field{wire.F(112, id)}, MsgOpt{})
			}
			modelT++
			if gapOpen && modelT >= gapEnd {
				gapOpen = false
				modelT = p.OutSeq
			}
			n := 0
			for _, x := range r {
				if x.Type() == "0" && x.Str(112) == id {
					n++
				} else if x.Type() == "0" && x.Has(112) {
					env.Violate("C20/testrequest-echo", "Heartbeat answers TestReqID %q with %q", id, x.Str(112))
				}
			}
			if n != 1 && !env.Failed() {
				env.Violate("C20/testrequest-echo", "in-sequence TestRequest %q answered by %d matching Heartbeats: %v", id, n, summarize(r))
			}
			env.Stat("probe_testrequest_answered")
			env.Nontrivial = true
			feed()
		case 3: // application message in sequence
			id := p.NextID()
			env.Note("peer app %s seq=%d", id, p.OutSeq)
			p.Send("D", AppBody(id), MsgOpt{})
			if !gapOpen {
				modelT++
			}
			feed()
		case 4: // sequence gap
			if gapOpen {
				continue
			}
			g := 1 + ch.Choose("gap", 5)
			p.OutSeq += g
			id := p.NextID()
			env.Note("peer skips %d, app %s seq=%d", g, id, p.OutSeq)
			gapEnd = p.OutSeq
			p.Send("D", AppBody(id), MsgOpt{})
			gapOpen = true
			env.Stat("fault_sequence_gap")
			feed()
		case 5: // engine-side application send
			id := fmt.Sprintf("e%d", i)
			env.Note("engine app send %s", id)
			if err := s.E.Send("D", AppBody(id)); err != nil {
				env.Violate("C20/send-error", "SendToTarget failed while logged on: %v", err)
			}
			env.Settle()
			feed()
		case 6: // fill the gap the way an honest peer does: answer each ResendRequest for exactly its range
			if !gapOpen {
				continue
			}
			for it := 0; it < 40 && modelT < gapEnd && !env.Failed(); it++ {
				rr, ok := LastOfType(p.Recv, "2")
				if !ok {
					break
				}
				b, e := rr.IntOr(7, 0), rr.IntOr(16, 0)
				if b != modelT {
					break // the engine asks for something else than the model expects; C04 judges that
				}
				to := gapEnd
				if e != 0 && e != 999999 && e+1 < to {
					to = e + 1
				}
				env.Note("peer gap fill %d -> %d", b, to)
				p.Send("4", []wire.Field{wire.F(123, "Y"), wire.FI(36, to)}, MsgOpt{Seq: b, PossDup: true})
				modelT = to
			}
			if modelT >= gapEnd {
				modelT = p.OutSeq
				gapOpen = false
				env.Stat("probe_gap_filled")
			}
			feed()
		}
		// "... cancels the pending disconnect without disturbing a gap recovery in progress":
		// with no chunking, an open recovery never issues another ResendRequest.
		for _, x := range p.Recv[before:] {
			if x.Type() == "2" {
				rrSeen++
				if rrSeen > 1 && c.ChunkSize == 0 && gapOpen {
					fp := "C20/recovery-disturbed/duplicate-resendrequest"
					env.Violate(fp, "second ResendRequest (7=%s 16=%s) while the recovery opened earlier is still in progress", x.Str(7), x.Str(16))
				}
			}
			if x.Type() == "0" && !x.Has(112) {
				env.Nontrivial = true
				env.Stat("probe_timer_heartbeat")
			}
			if x.Type() == "1" {
				env.Nontrivial = true
			}
		}
		if !gapOpen {
			rrSeen = 0
		}
		env.State(fmt.Sprintf("gap=%v pending=%v", gapOpen, m.pending))
	}
	if !m.closed && !m.expectClose && !env.Failed() && p.Connected() && !gapOpen && ch.Chance("peerstopsreading", 1, 5) {
		// The counterparty hangs: from now on it neither sends nor READS, and the buffers in between are full -
		// the engine's writes do not return. What reaches the wire cannot be observed any more; what remains of
		// the statement is "if nothing arrives for another 1.2 intervals the session is disconnected and the
		// application notified".
		env.Stat("fault_peer_stops_reading")
		feed()
		if !m.closed && !env.Failed() {
			p.EP.BlockWrites()
			deadline := m.lastIn.Add(time.Duration(2.4*float64(m.hb)) + 2*m.slack)
			if m.pending {
				deadline = m.trAt.Add(time.Duration(1.2*float64(m.hb)) + m.slack)
			}
			// "the session is disconnected and the application notified": judged by the logout notification; the
			// socket itself may be given a little longer to take what is queued, but must be closed in the end
			for s.E.App.LoggedOn() && time.Now().Before(deadline.Add(m.hb/2)) {
				env.Advance(m.hb / 4)
			}
			notified := !s.E.App.LoggedOn()
			for k := 0; k < 60 && notified && !p.EP.IsClosed(); k++ {
				env.Advance(500 * time.Millisecond)
			}
			closed := p.EP.IsClosed()
			env.Note("peer stopped reading: notified=%v closed=%v blocked writes=%d", notified, closed, p.EP.BlockedWrites)
			p.EP.UnblockWrites()
			env.Settle()
			if !notified {
				env.Violate("C20/dead-peer-not-disconnected/peer-stopped-reading", "a counterparty that neither sends nor reads is still connected %v after its last message (interval %v): the session waits for a write to return", time.Since(m.lastIn), m.hb)
			} else if !closed {
				env.Violate("C20/connection-left-open", "the session has ended (OnLogout) but the connection to the counterparty that stopped reading is still open 30 s later")
			} else {
				env.Stat("probe_dead_peer_disconnect_while_writes_block")
			}
			m.closed = true
		}
	} else if !m.closed && !m.expectClose && !env.Failed() && p.Connected() && !gapOpen && !m.pending && ch.Chance("busyapp", 1, 4) {
		if hb <= 10 && ch.Chance("livepeer", 1, 2) {
			c20BusySessionLivePeer(env, s, m, feed)
		} else {
			c20BusyApplication(env, s, m, feed)
		}
	}
	if m.closed {
		env.Nontrivial = true
	}
	} // connections
}

// c20BusyApplication: a burst of application messages arrives in one read while the application takes its time
// with each of them (0.3 to 2 intervals per callback), then the counterparty falls silent for good. While the
// application holds the session goroutine the engine cannot meet any keep-alive obligation, and the timers that
// fall due in the meantime are all waiting when the callback returns - together with the next message of the
// burst. Which of several ready sources the session loop takes next is Go's (random) choice in production; here
// the simulator decides it (select gate, one fixed polling order per run). What the statement still promises is
// judged from the moment the application is done (E): the peer has been silent since before E, so a TestRequest
// and, 1.2 intervals later, the disconnect with OnLogout are due by E + 2.4 intervals at the latest. What the
// engine does WHILE the application is busy (and right after, with stale timer events) is not judged.
func c20BusyApplication(env *Env, s *Sut, m *kaMonitor, feed func()) {
	ch, p := env.Ch, s.P
	feed()
	if m.closed || env.Failed() || !s.E.App.LoggedOn() {
		return
	}
	orders := [][]int{{3, 2, 1, 4, 0}, {2, 3, 1, 4, 0}, {4, 3, 2, 1, 0}, {2, 4, 3, 1, 0}}
	order := orders[ch.Choose("busyorder", len(orders))]
	n := 2 + ch.Choose("busyburst", 2)
	tenths := []int{3, 7, 13, 16, 20, 0}
	var plan []time.Duration
	var burst []byte
	desc := ""
	for i := 0; i < n; i++ {
		d := time.Duration(tenths[ch.Choose("busytenths", len(tenths))])*m.hb/10 + time.Duration(211+i*5003)*time.Microsecond
		plan = append(plan, d)
		desc += fmt.Sprintf(" %v", d)
		b, _ := p.Build("D", AppBody(p.NextID()), MsgOpt{})
		mm, _ := wire.Scan(b)
		sm := SentMsg{Msg: mm, Conn: p.Conn, At: time.Now()}
		sm.N = env.Rec(fmt.Sprintf("peer>:%d", p.Conn), "peer>", string(b), true)
		p.Sent = append(p.Sent, sm)
		burst = append(burst, b...)
	}
	env.Note("busy application: burst of %d in one read, callbacks take%s, select order %v; then silence", n, desc, order)
	env.Stat("fault_busy_application_burst")
	_, done0, _ := s.E.App.SlowLeft()
	s.E.App.mu.Lock()
	s.E.App.SlowSeq = plan
	s.E.App.mu.Unlock()
	simsync.SetSelectOrder(order)
	env.OnCleanup(func() { simsync.SetSelectOrder(nil) })
	p.EP.Feed(burst)
	env.Settle()
	// let the application work through the burst (or the engine end the connection, whichever comes first)
	limit := time.Now().Add(time.Duration(n)*2*m.hb + 3*m.hb)
	for time.Now().Before(limit) && !p.EP.IsClosed() {
		if _, done, _ := s.E.App.SlowLeft(); done-done0 >= n {
			break
		}
		env.Advance(m.hb / 10)
	}
	left, done, E := s.E.App.SlowLeft()
	s.E.App.mu.Lock()
	s.E.App.SlowSeq = nil
	s.E.App.mu.Unlock()
	if done-done0 < n && !p.EP.IsClosed() && s.E.App.LoggedOn() {
		env.Violate("C20/busy-application/burst-not-delivered", "only %d of %d in-sequence application messages of the burst reached the application within %v (%d callbacks not started), session still logged on", done-done0, n, time.Duration(n)*2*m.hb+3*m.hb, left)
		return
	}
	if done-done0 >= n {
		env.Stat("probe_busy_application_burst_done")
	}
	if E.IsZero() {
		E = time.Now()
	}
	deadline := E.Add(time.Duration(2.4*float64(m.hb)) + 2*m.slack)
	for s.E.App.LoggedOn() && time.Now().Before(deadline.Add(m.hb/4)) {
		env.Advance(m.hb / 4)
	}
	notified := !s.E.App.LoggedOn()
	for k := 0; k < 60 && notified && !p.EP.IsClosed(); k++ {
		env.Advance(500 * time.Millisecond)
	}
	p.Collect()
	trs := 0
	for _, x := range p.Recv {
		if x.Type() == "1" && x.At.After(E.Add(-time.Millisecond)) {
			trs++
		}
	}
	env.Note("after the burst: application done at +%v, notified=%v closed=%v, TestRequests since then %d", E.Sub(env.T0), notified, p.EP.IsClosed(), trs)
	if !notified {
		env.Violate("C20/dead-peer-not-disconnected/after-busy-application", "the application finished its callbacks %v ago and the counterparty has been silent since before that (interval %v, select order %v), but the session is still logged on", time.Since(E), m.hb, order)
	} else if !p.EP.IsClosed() {
		env.Violate("C20/connection-left-open", "the session has ended (OnLogout) but the connection is still open 30 s later")
	} else {
		env.Stat("probe_dead_peer_disconnect_after_busy_application")
	}
	m.closed = true
}

// c20BusySessionLivePeer: the session goroutine is held up again and again (inbound callbacks of 0.5-1.1 intervals,
// now and then a slow ToAdmin) while the counterparty is alive and well: it sends a Heartbeat every 0.4-1 intervals and
// answers every TestRequest at once. Timer events that fired during a hold-up are waiting together with the
// counterparty's messages when the session comes back; the simulator decides who is served first (select gate).
// Two things the statement promises hold however busy the session is, and only they are judged here:
//   - "if nothing arrives for ANOTHER 1.2 intervals the session is disconnected": a dead-peer disconnect comes no
//     earlier than 1.2 intervals after the TestRequest reached the wire;
//   - "any inbound message in between cancels the pending disconnect": no dead-peer disconnect while the engine
//     itself handed a message of the counterparty to the application within the last 1.2 intervals.
// A disconnect the engine announces with a Logout of its own is not a keep-alive matter and not judged.
func c20BusySessionLivePeer(env *Env, s *Sut, m *kaMonitor, feed func()) {
	ch, p := env.Ch, s.P
	feed()
	if m.closed || env.Failed() || !s.E.App.LoggedOn() {
		return
	}
	orders := [][]int{{3, 2, 1, 4, 0}, {2, 3, 1, 4, 0}, {4, 3, 2, 1, 0}, {2, 4, 3, 1, 0}}
	order := orders[ch.Choose("busyorder", len(orders))]
	var inPlan, outPlan []time.Duration
	for i, n := 0, 4+ch.Choose("slowin", 10); i < n; i++ {
		// (odd microseconds on top: a hold-up must not end at the very instant a timer armed on a round multiple of
		// the interval expires - which of two goroutines woken at one simulated instant runs first is not the simulator's)
		inPlan = append(inPlan, time.Duration([]int{5, 6, 7, 8, 9, 11}[ch.Choose("slowintenths", 6)])*m.hb/10+time.Duration(137+i*7919)*time.Microsecond)
	}
	for i, n := 0, ch.Choose("slowout", 4); i < n; i++ {
		outPlan = append(outPlan, time.Duration([]int{5, 8, 13, 15}[ch.Choose("slowouttenths", 4)])*m.hb/10+time.Duration(61+i*6007)*time.Microsecond)
	}
	period := time.Duration([]int{4, 5, 8, 10}[ch.Choose("beatperiod", 4)]) * m.hb / 10
	duration := time.Duration(6+ch.Choose("busyintervals", 8)) * m.hb
	env.Note("busy session, live peer: %d slow inbound callbacks %v, %d slow ToAdmin %v, peer Heartbeat every %v for %v, select order %v", len(inPlan), inPlan, len(outPlan), outPlan, period, duration, order)
	env.Stat("fault_busy_session_live_peer")
	s.E.App.mu.Lock()
	s.E.App.SlowSeq, s.E.App.SlowOut = inPlan, outPlan
	s.E.App.mu.Unlock()
	simsync.SetSelectOrder(order)
	env.OnCleanup(func() { simsync.SetSelectOrder(nil) })
	defer func() {
		s.E.App.mu.Lock()
		s.E.App.SlowSeq, s.E.App.SlowOut = nil, nil
		s.E.App.mu.Unlock()
		// the session may be in the middle of a hold-up with a backlog behind it: let it come back and work the
		// backlog off (no hold-ups any more) before the driver does anything else; the select order stays as it is
		// for the rest of the run (cleared in cleanup) - a backlog without an order would be Go's to schedule
		env.Advance(m.hb*16/10 + 50*time.Millisecond)
		p.Collect()
		m.closed = true
	}()
	recvN := len(p.Recv)
	start := time.Now()
	lastBeat := start
	for time.Since(start) < duration && p.Connected() && !env.Failed() {
		env.Advance(m.hb / 10)
		p.Collect()
		for ; recvN < len(p.Recv); recvN++ {
			if x := p.Recv[recvN]; x.Type() == "1" && p.Connected() {
				p.Send("0", []wire.Field{wire.F(112, x.Str(112))}, MsgOpt{})
				lastBeat = time.Now()
				env.Stat("probe_testrequest_answered_at_once_by_live_peer")
			}
		}
		if time.Since(lastBeat) >= period && p.Connected() {
			p.Send("0", nil, MsgOpt{})
			lastBeat = time.Now()
		}
	}
	p.Collect()
	if !p.EP.IsClosed() {
		env.Stat("probe_busy_session_live_peer_survived")
		return
	}
	D := p.EP.ClosedAt
	var lastTR, lastLogout time.Time
	for _, x := range p.Recv {
		if x.Conn != p.Conn {
			continue
		}
		switch x.Type() {
		case "1":
			lastTR = x.At
		case "5":
			lastLogout = x.At
		}
	}
	if !lastLogout.IsZero() && !lastLogout.Before(start) {
		env.Stat("probe_busy_session_engine_logged_out")
		return
	}
	wait := time.Duration(1.2 * float64(m.hb))
	var lastHandled time.Time
	for _, a := range s.E.App.Snapshot() {
		if (a.Kind == "FromAdmin" || a.Kind == "FromApp") && !a.At.After(D) {
			lastHandled = a.At
		}
	}
	env.Note("connection closed by the engine at +%v; last TestRequest at +%v, last inbound callback at +%v", D.Sub(env.T0), lastTR.Sub(env.T0), lastHandled.Sub(env.T0))
	if !lastTR.IsZero() && D.Sub(lastTR) < wait-m.slack {
		env.Violate("C20/disconnect-early/busy-session", "the session was disconnected %v after its TestRequest reached the wire (interval %v: another 1.2 intervals = %v are granted); the counterparty sends a Heartbeat every %v and answers every TestRequest at once (select order %v)", D.Sub(lastTR), m.hb, wait, period, order)
		return
	}
	if !lastHandled.IsZero() && D.Sub(lastHandled) < wait-m.slack {
		env.Violate("C20/live-peer-disconnected/busy-session", "dead-peer disconnect although the engine handed a message of the counterparty to the application only %v earlier (interval %v, 1.2 intervals = %v; select order %v)", D.Sub(lastHandled), m.hb, wait, order)
		return
	}
	env.Stat("probe_busy_session_disconnect_not_judged")
}

func summarize(r []RecvMsg) string {
	s := ""
	for _, x := range r {
		s += fmt.Sprintf("[35=%s 34=%d", x.Type(), x.Seq())
		for _, t := range []int{112, 7, 16, 36, 45, 371, 372, 373, 58, 141, 43, 123} {
			if v, ok := x.Get(t); ok {
				s += fmt.Sprintf(" %d=%s", t, v)
			}
		}
		s += "]"
	}
	return s
}
