package harness

import (
	"encoding/json"
	"fmt"
	"os"
	"regexp"
	"runtime"
	"hash/fnv"
	"sort"
	"strings"
	"sync"
	"testing/synctest"
	"time"
)

// ---------------------------------------------------------------------------------------------
// Chooser: the only source of decisions. Generating mode draws from a PRNG seeded by the run seed
// and logs every decision; replay mode reads a list (0 past its end).
// ---------------------------------------------------------------------------------------------

type Chooser struct {
	state   uint64
	replay  []int
	replayN int
	Replay  bool
	Log     []int
	Kinds   []string
	Limit   int // max decisions per run (guards runaway loops)
}

func NewChooser(seed uint64) *Chooser {
	c := &Chooser{state: seed*0x9E3779B97F4A7C15 + 0xD1B54A32D192ED03, Limit: 200000}
	c.next()
	return c
}

func NewReplayChooser(list []int) *Chooser {
	return &Chooser{replay: list, Replay: true, Limit: 200000}
}

func (c *Chooser) next() uint64 { // splitmix64
	c.state += 0x9E3779B97F4A7C15
	z := c.state
	z = (z ^ (z >> 30)) * 0xBF58476D1CE4E5B9
	z = (z ^ (z >> 27)) * 0x94D049BB133111EB
	return z ^ (z >> 31)
}

// Choose returns a value in [0,n). n<=1 returns 0 without consuming a decision.
func (c *Chooser) Choose(kind string, n int) int {
	if n <= 1 {
		return 0
	}
	var v int
	if c.Replay {
		if c.replayN < len(c.replay) {
			v = c.replay[c.replayN]
			if v < 0 {
				v = -v
			}
			v %= n
		}
		c.replayN++
	} else {
		v = int(c.next() % uint64(n))
	}
	c.Log = append(c.Log, v)
	c.Kinds = append(c.Kinds, kind)
	if len(c.Log) > c.Limit {
		panic(harnessError{"decision limit exceeded"})
	}
	return v
}

// Chance is true with probability num/den; decision 0 is false (the simple choice).
func (c *Chooser) Chance(kind string, num, den int) bool {
	if num <= 0 {
		return false
	}
	return c.Choose(kind, den) >= den-num
}

// Weighted picks an index with the given weights; decision 0 maps to the first non-zero weight.
func (c *Chooser) Weighted(kind string, w []int) int {
	tot := 0
	for _, x := range w {
		tot += x
	}
	if tot <= 0 {
		return 0
	}
	v := c.Choose(kind, tot)
	for i, x := range w {
		if v < x {
			return i
		}
		v -= x
	}
	return len(w) - 1
}

// Range returns a value in [lo,hi]; decision 0 is lo.
func (c *Chooser) Range(kind string, lo, hi int) int {
	if hi <= lo {
		return lo
	}
	return lo + c.Choose(kind, hi-lo+1)
}

type harnessError struct{ msg string }

func (h harnessError) Error() string { return "harness: " + h.msg }

// ---------------------------------------------------------------------------------------------
// Env: one simulated run.
// ---------------------------------------------------------------------------------------------

type Event struct {
	N      int     `json:"n"`
	T      float64 `json:"t"` // simulated seconds since the start of the run
	Stream string  `json:"s"`
	Kind   string  `json:"k"`
	Detail string  `json:"d,omitempty"`
}

type Violation struct {
	Property    string `json:"property"`
	Fingerprint string `json:"fingerprint"` // stable class of the violation: monitor/rule[/params]
	Detail      string `json:"detail"`
	AtEvent     int    `json:"at_event"`
}

type Env struct {
	Seed    uint64
	Ch      *Chooser
	T0      time.Time
	mu      sync.Mutex
	nEvents int
	hist    []Event // ring of the last histCap events
	histAt  int
	streams map[string]uint64
	Stats   map[string]int // fault kinds fired, probes hit
	States  map[string]bool
	Viol    *Violation
	Cfg     map[string]any // the run's swarm configuration, printed first in samples
	advN    uint64
	Nontrivial bool
	Sample  []string // compact human-readable trace of the run's main actions
	inBubble bool
	cleanup []func()
	Verbose bool
	PropID  string
	simSeconds float64
	frozen  bool
	KnownHits map[string]int
	FingerprintAs string
	// anchors: simulated instants from which the engine arms its timers (every engine timer is due a
	// multiple of 0.2 s after one of them): last engine write, last peer feed, last connection open, last
	// engine Logout, plus instants added by workloads.
	anchors [5]time.Duration
}

// AddAnchor records "the engine (re)armed timers now".
func (e *Env) AddAnchor() {
	e.mu.Lock()
	e.anchors[4] = time.Since(e.T0)
	e.mu.Unlock()
}

// QuietWindow advances simulated time until no engine timer can fall due within the next w: neither the
// session loop's 1 s ticker nor a timer armed at one of the anchors. Workloads that keep a second event
// waiting for the session while it is busy use it to respect rule R1 (one ready source per select).
func (e *Env) QuietWindow(w time.Duration) {
	for try := 0; try < 12; try++ {
		now := time.Since(e.T0)
		bad := false
		if d := now % time.Second; d > time.Second-w-time.Millisecond {
			bad = true
		}
		e.mu.Lock()
		for _, a := range e.anchors {
			if a == 0 {
				continue
			}
			d := (now - a) % (200 * time.Millisecond)
			// (a slow callback delays the re-arming by its own duration, hence the margin after the anchor)
			if d > 200*time.Millisecond-w-time.Millisecond || d < 8*time.Millisecond {
				bad = true
			}
		}
		e.mu.Unlock()
		if !bad {
			return
		}
		e.Advance(w/2 + 3*time.Millisecond)
	}
}

var histCap = func() int {
	if v := os.Getenv("VERIF_HIST"); v != "" {
		n := 0
		fmt.Sscan(v, &n)
		if n > 0 {
			return n
		}
	}
	return 400
}()

func NewEnv(prop string, seed uint64, ch *Chooser) *Env {
	return &Env{PropID: prop, Seed: seed, Ch: ch, streams: map[string]uint64{}, Stats: map[string]int{}, States: map[string]bool{}, Cfg: map[string]any{}, KnownHits: map[string]int{}}
}

// Rec records an event. hashed events contribute to the canonical trace of their stream.
func (e *Env) Rec(stream, kind, detail string, hashed bool) int {
	e.mu.Lock()
	defer e.mu.Unlock()
	if e.frozen {
		// teardown is not part of the run: engines are stopped and links cut without the one-stimulus
		// discipline, so what happens there is neither judged nor part of the canonical trace
		return e.nEvents
	}
	e.nEvents++
	ev := Event{N: e.nEvents, T: time.Since(e.T0).Seconds(), Stream: stream, Kind: kind, Detail: detail}
	if len(e.hist) < histCap {
		e.hist = append(e.hist, ev)
	} else {
		e.hist[e.histAt] = ev
		e.histAt = (e.histAt + 1) % histCap
	}
	if hashed {
		detail = canonical(detail)
		h := fnv.New64a()
		var b [8]byte
		s := e.streams[stream]
		for i := 0; i < 8; i++ {
			b[i] = byte(s >> (8 * i))
		}
		h.Write(b[:])
		h.Write([]byte(kind))
		h.Write([]byte{0})
		h.Write([]byte(detail))
		e.streams[stream] = h.Sum64()
	}
	switch {
	case strings.HasPrefix(stream, "wire:") && kind == "engine>":
		e.anchors[0] = time.Since(e.T0)
		if strings.Contains(detail, "\x0135=5\x01") {
			e.anchors[3] = e.anchors[0]
		}
	case strings.HasPrefix(stream, "peer>"):
		e.anchors[1] = time.Since(e.T0)
	case strings.HasPrefix(stream, "wire:") && kind == "open":
		e.anchors[2] = time.Since(e.T0)
	}
	if e.Verbose {
		fmt.Printf("  %6d %10.6f %-14s %-10s %s\n", ev.N, ev.T, stream, kind, printable(detail))
	}
	return ev.N
}

var fullPrint = os.Getenv("VERIF_FULL") != ""

func printable(s string) string {
	s = strings.ReplaceAll(s, "\x01", "|")
	if len(s) > 300 && !fullPrint {
		s = s[:300] + "..."
	}
	return s
}

func (e *Env) EventN() int { e.mu.Lock(); defer e.mu.Unlock(); return e.nEvents }

func (e *Env) History() []Event {
	e.mu.Lock()
	defer e.mu.Unlock()
	return append(append([]Event(nil), e.hist[e.histAt:]...), e.hist[:e.histAt]...)
}

// TraceHash is the hash of the canonical trace: decision log plus per-stream event hashes.
func (e *Env) TraceHash() uint64 {
	e.mu.Lock()
	defer e.mu.Unlock()
	names := make([]string, 0, len(e.streams))
	for n := range e.streams {
		names = append(names, n)
	}
	sort.Strings(names)
	h := fnv.New64a()
	for _, n := range names {
		fmt.Fprintf(h, "%s=%x;", n, e.streams[n])
	}
	for _, d := range e.Ch.Log {
		fmt.Fprintf(h, "%d,", d)
	}
	return h.Sum64()
}

func (e *Env) Stat(name string)            { e.mu.Lock(); e.Stats[name]++; e.mu.Unlock() }
func (e *Env) StatN(name string, n int)    { e.mu.Lock(); e.Stats[name] += n; e.mu.Unlock() }
func (e *Env) State(key string)            { e.mu.Lock(); e.States[key] = true; e.mu.Unlock() }
func (e *Env) Note(format string, a ...any) {
	e.mu.Lock()
	if len(e.Sample) < 120 {
		e.Sample = append(e.Sample, printable(fmt.Sprintf(format, a...)))
	}
	e.mu.Unlock()
}

// Violate records the first violation of the run.
func (e *Env) Violate(fingerprint, format string, a ...any) {
	e.mu.Lock()
	defer e.mu.Unlock()
	if e.FingerprintAs != "" {
		// the run was set up around one specific condition (see the workload): whatever rule notices its
		// consequences, it is that condition's fingerprint
		format = "[" + fingerprint + "] " + format
		fingerprint = e.FingerprintAs
	}
	if KnownFingerprints[fingerprint] {
		// a recorded known finding: counted, reported as KNOWN-FINDING by the runner, and the run goes
		// on so that it cannot hide a different violation later in the same run
		e.KnownHits[fingerprint]++
		return
	}
	if e.Viol == nil {
		e.Viol = &Violation{Property: e.PropID, Fingerprint: fingerprint, Detail: printable(fmt.Sprintf(format, a...)), AtEvent: e.nEvents}
		if e.Verbose {
			fmt.Printf("  VIOLATION %s: %s\n", fingerprint, e.Viol.Detail)
		}
	}
}

func (e *Env) Failed() bool { e.mu.Lock(); defer e.mu.Unlock(); return e.Viol != nil }

// Settle waits until every goroutine in the bubble is durably blocked.
func (e *Env) Settle() { synctest.Wait() }

// Advance moves simulated time forward by d plus a sub-millisecond jitter derived from the run seed
// and the advance index (so that simulator-made instants never coincide with the engine's
// whole-second ticker or with each other), then settles. Timers that fall due fire in time order,
// each cascade running to quiescence before time moves on.
func (e *Env) Advance(d time.Duration) {
	e.advN++
	z := (e.Seed+1)*0x9E3779B97F4A7C15 ^ e.advN*0xBF58476D1CE4E5B9
	z ^= z >> 29
	z *= 0x94D049BB133111EB
	z ^= z >> 32
	j := time.Duration(z%999983) + 1
	time.Sleep(d + j)
	synctest.Wait()
}

func (e *Env) Now() time.Time { return time.Now() }
func (e *Env) SimSeconds() float64 { return time.Since(e.T0).Seconds() }

func (e *Env) OnCleanup(f func()) { e.cleanup = append(e.cleanup, f) }

func mix(a, b, c uint64) uint64 {
	z := a*0x9E3779B97F4A7C15 ^ (b+0x632BE59BD9B4E019)*0xBF58476D1CE4E5B9 ^ (c+0x1234567)*0x94D049BB133111EB
	z ^= z >> 31
	z *= 0xD6E8FEB86659FD93
	z ^= z >> 32
	return z
}


func (e *Env) StreamHashes() map[string]uint64 {
	e.mu.Lock()
	defer e.mu.Unlock()
	m := map[string]uint64{}
	for k, v := range e.streams {
		m[k] = v
	}
	return m
}

// Freeze ends the recorded part of the run (called at the start of teardown).
func (e *Env) Freeze() { e.mu.Lock(); e.frozen = true; e.mu.Unlock() }

// canonical removes the one piece of engine output that is legitimately nondeterministic from
// what goes into the canonical trace: when several required fields are missing, the validator
// reports whichever it meets first while ranging over a Go map (validateRequired), so the RefTagID
// of a "Required tag missing" Reject (and with it BodyLength and CheckSum) differs from run to run.
var reReqTag = regexp.MustCompile(`\x01371=\d+\x01`)
var reBodyLen = regexp.MustCompile(`\x019=\d+\x01`)
var reCkSum = regexp.MustCompile(`\x0110=\d\d\d\x01`)
var reReqTagOld = regexp.MustCompile(`Required tag missing \(\d+\)`)

func canonical(d string) string {
	if !strings.Contains(d, "Required tag missing") {
		return d
	}
	d = reReqTag.ReplaceAllString(d, "\x01371=*\x01")
	d = reReqTagOld.ReplaceAllString(d, "Required tag missing (*)")
	d = reBodyLen.ReplaceAllString(d, "\x019=*\x01")
	d = reCkSum.ReplaceAllString(d, "\x0110=*\x01")
	return d
}

// KnownFingerprints is loaded once per worker from known_findings.json (read-only at run time).
var KnownFingerprints = map[string]bool{}

// AdvanceNet is Advance for worlds with engine-to-engine links: a discrete-event loop in which the
// driver itself delivers in-flight chunks at their due instants, ONE at a time with a settle after
// each, so that a session never has two inbound frames (or a frame and its own queued output)
// made ready by the same step. The sleep towards the next delivery is interrupted by any new write.
func (e *Env) AdvanceNet(w interface {
	NextDue() (time.Time, bool)
	DeliverOne() bool
}, sig <-chan struct{}, d time.Duration) {
	e.advN++
	z := (e.Seed+1)*0x9E3779B97F4A7C15 ^ e.advN*0xBF58476D1CE4E5B9
	z ^= z >> 29
	z *= 0x94D049BB133111EB
	z ^= z >> 32
	end := time.Now().Add(d + time.Duration(z%999983) + 1)
	for guard := 0; guard < 1000000; guard++ {
		synctest.Wait()
		for w.DeliverOne() {
			synctest.Wait()
		}
		now := time.Now()
		if !now.Before(end) {
			return
		}
		target := end
		if t, ok := w.NextDue(); ok && t.Before(target) {
			target = t
		}
		select {
		case <-sig:
		default:
		}
		tm := time.NewTimer(target.Sub(now))
		select {
		case <-tm.C:
		case <-sig:
			tm.Stop()
		}
	}
	panic(harnessError{"AdvanceNet did not terminate"})
}

// livenessProps are the properties whose statements promise progress (delivery once the link is
// up, a logout notification when the connection ends, no hang, dead-peer disconnect): for them an
// engine that can no longer be stopped is a violation; for the others it is reported as an
// infrastructure failure.
var livenessProps = map[string]bool{"C05": true, "C08": true, "C09": true, "C20": true}

// EngineStuck is called when an engine does not stop within its bound. The bubble can never finish
// in that case (the stuck session's ticker keeps simulated time running), so the worker cannot
// return normally: it writes an emergency replay file (seed + decisions so far) and exits with
// status 4; the runner confirms it by replaying that file in a fresh process.
func (e *Env) EngineStuck(what string) {
	if !livenessProps[e.PropID] {
		panic(harnessError{what})
	}
	e.emergency(e.PropID+"/engine-does-not-stop", what)
}

// EngineSpins is called by the watchdog (another goroutine, real time) when an engine goroutine has been
// runnable for the whole watchdog period. Returns if the property does not promise liveness.
func (e *Env) EngineSpins(what string) {
	if !livenessProps[e.PropID] {
		return
	}
	e.emergency(e.PropID+"/engine-spins", what)
}

// EngineBlockedOnLock is called by the watchdog when an engine goroutine has been waiting for one of the engine's
// own (uninstrumented) mutexes for the whole watchdog period: whoever holds it never lets go, the run cannot
// proceed on simulated time. A finding for the properties that promise liveness, like EngineSpins.
func (e *Env) EngineBlockedOnLock(what string) {
	if !livenessProps[e.PropID] {
		return
	}
	e.emergency(e.PropID+"/engine-blocked-on-lock", what)
}

func (e *Env) emergency(fp, what string) {
	buf := make([]byte, 1<<18)
	n := runtime.Stack(buf, true)
	var frames []string
	for _, l := range strings.Split(string(buf[:n]), "\n") {
		if strings.Contains(l, "quickfixgo/quickfix.") && !strings.Contains(l, "verifsim") {
			frames = append(frames, strings.TrimSpace(l))
			if len(frames) > 25 {
				break
			}
		}
	}
	rf := map[string]any{"property": e.PropID, "seed": e.Seed, "decisions": e.Ch.Log, "fingerprint": fp, "emergency": true,
		"detail": what + "; engine goroutines: " + strings.Join(frames, " | "), "config": e.Cfg, "trace": e.Sample, "history_tail": e.History()}
	b, _ := json.MarshalIndent(rf, "", " ")
	if out := os.Getenv("VERIF_OUT"); out != "" {
		os.WriteFile(out+".emergency.json", b, 0o644)
	}
	fmt.Printf("REPLAY fingerprint=%s emergency\nDETAIL %s\n", fp, what)
	os.Exit(4)
}
