package harness

import (
	"bytes"
	"fmt"
	"github.com/quickfixgo/quickfix"
	"time"

	"verifsim/wire"
)

// C07 — sequence numbers persist across connections and reset only when agreed.

func init() {
	Register(&Property{ID: "C07", Run: runC07,
		Rule: "one real engine, 2-6 rounds of connect -> logon (peer with/without ResetSeqNumFlag) -> traffic incl. SequenceReset in gap-fill and reset mode with NewSeqNo below/at/above the expected number -> {peer logout | cut}, for every combination of ResetOnLogon/ResetOnLogout/ResetOnDisconnect/RefreshOnLogon, both roles, all BeginStrings, memory/file/SQL stores; oracle on the counters, the stored messages and the store-call stream (no Reset outside an agreed point); Logons refused by the application (FromAdmin returns RejectLogon); the store refuses the write of the Logout reply. Non-trivial: at least two completed logons and one ended connection; distinct: canonical trace hash"})
}

type c07Snap struct {
	S, T int
	msgs [][]byte
}

func c07Take(s *Sut) c07Snap {
	st := s.E.Store().inner
	sn := c07Snap{S: st.NextSenderMsgSeqNum(), T: st.NextTargetMsgSeqNum()}
	sn.msgs, _ = st.GetMessages(1, sn.S+5)
	return sn
}

func resetCalls(s *Sut, from int) int {
	n := 0
	for _, sr := range s.E.SF.All {
		for _, c := range sr.Snapshot() {
			if c.N > from && c.Op == "Reset" {
				n++
			}
		}
	}
	return n
}

func runC07(env *Env, tier string) {
	ch := env.Ch
	c := DrawBaseCfg(env)
	c.HeartBtInt = 30
	c.ResetOnLogon = ch.Chance("ResetOnLogon", 1, 4)
	c.ResetOnLogout = ch.Chance("ResetOnLogout", 1, 4)
	c.ResetOnDisconnect = ch.Chance("ResetOnDisconnect", 1, 4)
	c.RefreshOnLogon = ch.Chance("RefreshOnLogon", 1, 4)
	switch ch.Weighted("store", []int{5, 3, 2}) {
	case 1:
		c.Store = "file"
		c.StoreDir = "/store/c07"
	case 2:
		c.Store = "sql"
		dsn, keeper, err := NewSQLDatabase()
		if err != nil {
			env.Fatalf("sqlite: %v", err)
		}
		env.OnCleanup(func() { keeper.Close() })
		c.StoreDir = dsn
	}
	hasFlag := c.BeginString >= "FIX.4.1"
	s := StartSut(env, c)
	p := s.P
	anyOpt := c.ResetOnLogon || c.ResetOnLogout || c.ResetOnDisconnect
	logons, ended := 0, 0
	rounds := 2 + ch.Choose("rounds", 5)
	// counters as they were when the previous connection had ended (a fresh store starts at 1/1);
	// an initiator dials and sends its Logon on its own, so this cannot be sampled at connect time
	carried := c07Snap{S: 1, T: 1}
	carriedMark := 0
	for round := 0; round < rounds && !env.Failed(); round++ {
		// ------------------------------------------------------------------ LOGON
		before := carried
		mark := carriedMark
		p.EP = nil
		if !p.Connect(20 * time.Second) {
			env.Fatalf("no connection in round %d", round)
		}
		peerFlag := hasFlag && ch.Chance("peer141", 1, 4)
		var engLogon RecvMsg
		var ok bool
		expectReset := false
		unsolicited := false
		if c.Initiator {
			engLogon, ok = LastOfType(p.Recv, "A")
			if !ok || engLogon.Conn != p.Conn {
				env.Fatalf("initiator sent no Logon")
			}
			if ch.Chance("unanswered", 1, 6) {
				// the peer goes away without answering the Logon: nothing was agreed on this connection
				env.Note("round %d: initiator Logon 34=%d 141=%q left unanswered", round, engLogon.Seq(), engLogon.Str(141))
				p.Drop()
				env.Stat("fault_logon_unanswered")
				carried = c07Take(s)
				carriedMark = env.EventN()
				p.EP = nil
				env.Advance(500 * time.Millisecond)
				continue
			}
			sentFlag := engLogon.Str(141) == "Y"
			wantFlag := hasFlag && anyOpt && (c.ResetOnLogon || (before.S == 1 && before.T == 1))
			if sentFlag != wantFlag {
				env.Violate("C07/logon-flag", "initiator Logon 141=%q with options logon=%v logout=%v disconnect=%v and counters S=%d T=%d before connecting", engLogon.Str(141), c.ResetOnLogon, c.ResetOnLogout, c.ResetOnDisconnect, before.S, before.T)
				break
			}
			expectReset = c.ResetOnLogon || sentFlag
			if expectReset {
				if engLogon.Seq() != 1 {
					env.Violate("C07/reset-logon-number", "resetting Logon carries MsgSeqNum %d, must be 1", engLogon.Seq())
					break
				}
				p.OutSeq = 1
				env.Note("round %d: initiator Logon 34=1 141=%s; peer echoes", round, engLogon.Str(141))
				p.Send("A", p.LogonBody(c.HeartBtInt, sentFlag), MsgOpt{})
			} else {
				if engLogon.Seq() != before.S {
					env.Violate("C07/continuity", "initiator Logon carries MsgSeqNum %d, next outbound number before connecting was %d", engLogon.Seq(), before.S)
					break
				}
				if peerFlag {
					// the counterparty resets on its own: its answer carries ResetSeqNumFlag=Y and number 1
					p.OutSeq = 1
					env.Note("round %d: initiator Logon 34=%d; peer answers 34=1 with ResetSeqNumFlag=Y (unsolicited)", round, engLogon.Seq())
					p.Send("A", p.LogonBody(c.HeartBtInt, true), MsgOpt{})
					if p.Connected() || true {
						aft := c07Take(s)
						if resetCalls(s, mark) == 0 || aft.T != 2 {
							env.Violate("C07/reset-flag-not-honoured", "initiator received a Logon with ResetSeqNumFlag=Y (number 1): store resets %d, expected inbound number now %d (want a reset and 2)", resetCalls(s, mark), aft.T)
							break
						}
						env.Stat("probe_reset_flag_received_by_initiator")
						logons++
						unsolicited = true
					}
				} else {
					p.OutSeq = before.T
					env.Note("round %d: initiator Logon 34=%d; peer answers 34=%d", round, engLogon.Seq(), p.OutSeq)
					p.Send("A", p.LogonBody(c.HeartBtInt, false), MsgOpt{})
				}
			}
		} else {
			expectReset = c.ResetOnLogon || peerFlag
			if expectReset {
				p.OutSeq = 1
			} else {
				p.OutSeq = before.T
			}
			if hasFlag && ch.Chance("stalelogonwithresetflag", 1, 9) {
				// A Logon that asks for a reset but fails the session-level checks (SendingTime far outside
				// the window): it is refused, so nothing was agreed and nothing may be reset.
				p.OutSeq = 1
				env.Note("round %d: peer Logon 34=1 141=Y with a SendingTime ten minutes old", round)
				p.Send("A", p.LogonBody(c.HeartBtInt, true), MsgOpt{TimeDelta: -10 * time.Minute})
				env.Stat("probe_defective_logon_with_reset_flag")
				post := c07Take(s)
				if _, established := LastOfType(p.Recv, "A"); established && p.Connected() {
					// (the engine accepted it: CheckLatency must be off - not configured here)
					env.Violate("C07/continuity", "a Logon with a ten-minute-old SendingTime was accepted")
					break
				}
				if !c.ResetOnDisconnect {
					if n := resetCalls(s, mark); n != 0 {
						env.Violate("C07/unagreed-reset", "store Reset called %d times for a Logon with ResetSeqNumFlag=Y that was refused for its SendingTime", n)
						break
					}
					if len(post.msgs) < len(before.msgs) || post.S < before.S || post.T < before.T {
						env.Violate("C07/continuity", "a refused Logon (stale SendingTime, 141=Y) moved the counters from S=%d T=%d to S=%d T=%d, stored messages %d -> %d", before.S, before.T, post.S, post.T, len(before.msgs), len(post.msgs))
						break
					}
				}
				if p.Connected() {
					p.Drop()
				}
				carried = c07Take(s)
				carriedMark = env.EventN()
				p.EP = nil
				env.Advance(500 * time.Millisecond)
				continue
			}
			if ch.Chance("apprefuseslogon", 1, 7) {
				// The application refuses this Logon (FromAdmin returns RejectLogon): the engine answers with a
				// Logout and ends the connection. Nothing was agreed, so nothing may be reset - whatever the
				// Logon carried and whatever is configured.
				s.E.App.RejectFromAdmin = func(ac AppCall) quickfix.MessageRejectError {
					if ac.Type == "A" {
						return quickfix.RejectLogon{Text: "refused by the application"}
					}
					return nil
				}
				refusedSeq := p.OutSeq
				if !expectReset {
					switch ch.Weighted("refusedlogonseq", []int{4, 2, 2}) {
					case 1:
						refusedSeq = before.T + 1 + ch.Choose("refusedhigh", 4)
					case 2:
						if before.T > 1 {
							refusedSeq = 1 + ch.Choose("refusedlow", before.T-1)
						}
					}
					p.OutSeq = refusedSeq
				}
				env.Note("round %d: peer Logon 34=%d 141=%v, refused by the application", round, p.OutSeq, peerFlag)
				p.Send("A", p.LogonBody(c.HeartBtInt, peerFlag), MsgOpt{})
				s.E.App.RejectFromAdmin = nil
				env.Stat("probe_logon_refused_by_application")
				post := c07Take(s)
				if c.ResetOnDisconnect {
					// the connection ended: that reset is configured
					if post.S != 1 || post.T != 1 {
						env.Violate("C07/reset-on-disconnect", "ResetOnDisconnect: counters after the refused Logon's disconnect are S=%d T=%d, want 1/1", post.S, post.T)
						break
					}
				} else if n := resetCalls(s, mark); n != 0 {
					env.Violate("C07/unagreed-reset", "store Reset called %d times for a Logon (141=%v, ResetOnLogon=%v) that the application refused", n, peerFlag, c.ResetOnLogon)
					break
				} else if !expectReset && refusedSeq != before.T && post.T != before.T {
					// a refused Logon that does not carry the expected number cannot have consumed it
					env.Violate("C07/continuity", "a refused Logon numbered %d moved the expected inbound number from %d to %d", refusedSeq, before.T, post.T)
					break
				} else if post.S < before.S || post.S > before.S+1 || post.T < before.T || post.T > before.T+1 || len(post.msgs) < len(before.msgs) {
					env.Violate("C07/continuity", "a refused Logon moved the counters from S=%d T=%d to S=%d T=%d, stored messages %d -> %d", before.S, before.T, post.S, post.T, len(before.msgs), len(post.msgs))
					break
				}
				if p.Connected() {
					p.Drop()
				}
				carried = c07Take(s)
				carriedMark = env.EventN()
				p.EP = nil
				env.Advance(500 * time.Millisecond)
				continue
			}
			env.Note("round %d: peer Logon 34=%d 141=%v", round, p.OutSeq, peerFlag)
			r := p.Send("A", p.LogonBody(c.HeartBtInt, peerFlag), MsgOpt{})
			engLogon, ok = LastOfType(r, "A")
			if !ok {
				env.Violate("C07/no-logon-reply", "in-sequence Logon (141=%v) got no Logon reply: %s", peerFlag, summarize(r))
				break
			}
			if peerFlag {
				if engLogon.Str(141) != "Y" || engLogon.Seq() != 1 {
					env.Violate("C07/reset-echo", "Logon with ResetSeqNumFlag=Y answered by Logon 34=%d 141=%q; must be number 1 echoing the flag", engLogon.Seq(), engLogon.Str(141))
					break
				}
				env.Stat("probe_reset_flag_received")
			} else if expectReset {
				if engLogon.Seq() != 1 {
					env.Violate("C07/reset-logon-number", "ResetOnLogon: reply Logon carries MsgSeqNum %d, must be 1", engLogon.Seq())
					break
				}
			} else if engLogon.Seq() != before.S {
				env.Violate("C07/continuity", "reply Logon carries MsgSeqNum %d, next outbound number before connecting was %d", engLogon.Seq(), before.S)
				break
			}
		}
		if !p.Connected() {
			// The engine closed the connection during the handshake. Known engine behaviour that no
			// listed property forbids: the logon-timeout timer of an EARLIER connection attempt is
			// never cancelled and can fire into a later attempt. The exchange did not complete, so
			// there is nothing to judge; the next round starts from the counters as they are now.
			env.Stat("probe_logon_attempt_aborted_by_engine")
			carried = c07Take(s)
			carriedMark = env.EventN()
			p.EP = nil
			env.Advance(500 * time.Millisecond)
			continue
		}
		after := c07Take(s)
		if unsolicited {
			// judged above; the traffic/ending phases below still run
		} else if expectReset {
			if after.S != 2 || after.T != 2 {
				env.Violate("C07/reset-counters", "after a resetting logon exchange the counters are S=%d T=%d, want 2/2 (the Logon itself is number 1 on both sides)", after.S, after.T)
				break
			}
			env.Stat("probe_reset_logon")
		} else {
			if after.S != before.S+1 || after.T != before.T+1 {
				env.Violate("C07/continuity", "no reset agreed: counters went from S=%d T=%d to S=%d T=%d over disconnect+reconnect+logon, want +1/+1", before.S, before.T, after.S, after.T)
				break
			}
			if n := resetCalls(s, mark); n != 0 {
				env.Violate("C07/unagreed-reset", "store Reset called %d times during a logon with no reset option and no flag", n)
				break
			}
			if !c.PersistOff {
				for i, m := range before.msgs {
					if i >= len(after.msgs) || !bytes.Equal(after.msgs[i], m) {
						env.Violate("C07/stored-messages", "stored message %d changed over reconnect", i+1)
						break
					}
				}
			}
			env.Stat("probe_continuity_logon")
		}
		if !unsolicited {
			logons++
		}
		if env.Failed() {
			break
		}
		// ------------------------------------------------------------------ TRAFFIC
		mark = env.EventN()
		for k := ch.Choose("traffic", 5); k > 0 && !env.Failed() && p.Connected(); k-- {
			T := c07Take(s).T
			switch ch.Weighted("kind", []int{4, 2, 2, 3}) {
			case 0:
				p.Send("D", AppBody(p.NextID()), MsgOpt{})
			case 1:
				s.E.Send("D", AppBody(fmt.Sprintf("e%d.%d", round, k)))
				env.Settle()
				p.Collect()
			case 2: // gap fill in sequence
				to := T + ch.Choose("gfto", 5) - 1
				if to < 1 {
					to = 1
				}
				r := p.Send("4", []wire.Field{wire.F(123, "Y"), wire.FI(36, to)}, MsgOpt{Seq: T, PossDup: true})
				judgeSeqReset(env, s, "gap fill", T, to, r)
				if to > T {
					p.OutSeq = to
				} else {
					p.OutSeq = c07Take(s).T
				}
			case 3: // reset mode, MsgSeqNum anywhere
				n := T + ch.Choose("rsseq", 5) - 2
				if n < 1 {
					n = 1
				}
				to := T + ch.Choose("rsto", 7) - 3
				if to < 1 {
					to = 1
				}
				r := p.Send("4", []wire.Field{wire.FI(36, to)}, MsgOpt{Seq: n})
				judgeSeqReset(env, s, fmt.Sprintf("reset (34=%d)", n), T, to, r)
				p.OutSeq = c07Take(s).T
			}
		}
		if env.Failed() {
			break
		}
		if !p.Connected() {
			// the engine ended the connection by itself (reject path of a sequence reset): next round
			carried = c07Take(s)
			carriedMark = env.EventN()
			continue
		}
		if n := resetCalls(s, mark); n != 0 {
			env.Violate("C07/unagreed-reset", "store Reset called %d times in the middle of a logged-on session", n)
			break
		}
		// ------------------------------------------------------------------ END OF CONNECTION
		pre := c07Take(s)
		mark = env.EventN()
		if ch.Chance("endbylogout", 1, 2) {
			lo := MsgOpt{}
			inSeq := true
			switch ch.Weighted("logoutseq", []int{6, 2, 2}) {
			case 1:
				if pre.T > 1 {
					lo.Seq = 1 + ch.Choose("lowlogout", pre.T-1)
					inSeq = false
				}
			case 2:
				lo.Seq = pre.T + 1 + ch.Choose("highlogout", 3)
				inSeq = false
			}
			env.Note("round %d: peer logout 34=%d (expected %d)", round, map[bool]int{true: p.OutSeq, false: lo.Seq}[lo.Seq == 0], pre.T)
			// In a share of the logouts the store refuses the write of the engine's Logout reply (disk
			// full, database gone): the reply cannot be sent, the agreed resets must happen all the same.
			refused := false
			if ch.Chance("storerefuseslogoutreply", 1, 6) {
				s.E.SF.Fail = func(op string, n int) error {
					if refused || op == "IncrTarget" {
						return nil
					}
					refused = true
					env.Stat("fault_store_write_refused")
					return fmt.Errorf("injected: store refuses %s %d", op, n)
				}
			}
			r := p.Send("5", nil, lo)
			s.E.SF.Fail = nil
			if _, ok := LastOfType(r, "5"); !ok && !refused {
				env.Violate("C07/no-logout-reply", "peer Logout in sequence got no Logout reply: %s", summarize(r))
				break
			}
			if p.Connected() {
				p.Drop()
			}
			post := c07Take(s)
			switch {
			case c.ResetOnLogout || c.ResetOnDisconnect:
				if post.S != 1 || post.T != 1 {
					env.Violate("C07/reset-on-logout", "ResetOnLogout=%v ResetOnDisconnect=%v: counters after the logout exchange are S=%d T=%d, want 1/1", c.ResetOnLogout, c.ResetOnDisconnect, post.S, post.T)
				}
				env.Stat("probe_reset_on_logout")
			default:
				wantT := pre.T + 1
				if !inSeq {
					wantT = pre.T // a Logout that is not the expected number is answered but not consumed
				}
				if refused {
					// The reply could not be persisted. Whether its number and the Logout's number count as
					// used is not something the statement settles; the counters must not move otherwise.
					if post.S < pre.S || post.S > pre.S+1 || post.T < pre.T || post.T > pre.T+1 {
						env.Violate("C07/continuity", "logout exchange (reply refused by the store) without reset option moved counters from S=%d T=%d to S=%d T=%d", pre.S, pre.T, post.S, post.T)
					}
				} else if post.S != pre.S+1 || post.T != wantT {
					env.Violate("C07/continuity", "logout exchange without reset option moved counters from S=%d T=%d to S=%d T=%d, want S+1 and T=%d", pre.S, pre.T, post.S, post.T, wantT)
				}
				if n := resetCalls(s, mark); n != 0 {
					env.Violate("C07/unagreed-reset", "store Reset called at logout with no reset option")
				}
			}
		} else {
			env.Note("round %d: cut", round)
			p.Drop()
			env.Stat("fault_connection_cut")
			post := c07Take(s)
			if c.ResetOnDisconnect {
				if post.S != 1 || post.T != 1 {
					env.Violate("C07/reset-on-disconnect", "ResetOnDisconnect: counters after the disconnect are S=%d T=%d, want 1/1", post.S, post.T)
				}
				env.Stat("probe_reset_on_disconnect")
			} else {
				if post.S != pre.S || post.T != pre.T {
					env.Violate("C07/continuity", "a disconnect moved the counters from S=%d T=%d to S=%d T=%d", pre.S, pre.T, post.S, post.T)
				}
				if n := resetCalls(s, mark); n != 0 {
					env.Violate("C07/unagreed-reset", "store Reset called at a disconnect without ResetOnDisconnect")
				}
			}
		}
		ended++
		carried = c07Take(s)
		carriedMark = env.EventN()
		p.EP = nil
		// some idle time between connections (the initiator reconnects on its own)
		env.Advance(time.Duration(100+ch.Choose("idle", 3000)) * time.Millisecond)
		env.State(fmt.Sprintf("opts=%v/%v/%v/%v store=%s", c.ResetOnLogon, c.ResetOnLogout, c.ResetOnDisconnect, c.RefreshOnLogon, c.Store))
	}
	env.Nontrivial = logons >= 2 && ended >= 1
}

// judgeSeqReset: "A SequenceReset can only move the expected inbound number forward: a lower
// NewSeqNo is rejected and changes nothing."
func judgeSeqReset(env *Env, s *Sut, what string, T, to int, r []RecvMsg) {
	got := c07Take(s).T
	switch {
	case to > T:
		if got != to {
			env.Violate("C07/sequence-reset-forward", "%s with NewSeqNo %d > expected %d left the expected number at %d", what, to, T, got)
		}
		env.Stat("probe_sequence_reset_forward")
	case to < T:
		if got != T {
			env.Violate("C07/sequence-reset-backward", "%s with NewSeqNo %d < expected %d changed the expected number to %d", what, to, T, got)
		}
		if _, ok := LastOfType(r, "3"); !ok {
			env.Violate("C07/sequence-reset-backward", "%s with NewSeqNo %d < expected %d was not rejected: %s", what, to, T, summarize(r))
		}
		env.Stat("probe_sequence_reset_backward_rejected")
	default:
		if got != T {
			env.Violate("C07/sequence-reset-equal", "%s with NewSeqNo equal to the expected number %d changed it to %d", what, T, got)
		}
	}
}
