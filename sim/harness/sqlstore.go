package harness

import (
	"sync/atomic"
	"time"
	"context"
	"database/sql"
	"database/sql/driver"
	"errors"
	"fmt"
	"github.com/quickfixgo/quickfix/verifsim/simsync"
	"strings"
	"sync"

	sqlite3 "github.com/mattn/go-sqlite3"
	"github.com/quickfixgo/quickfix"
	sqlstore "github.com/quickfixgo/quickfix/store/sql"
)

// simsqlite3 is a database/sql driver that wraps the real cgo sqlite3 driver and fails the
// statements the simulator selects (the SQL store's public seam: SQLStoreDriver).

type sqlFaults struct {
	mu       sync.Mutex
	n        int            // statements seen (Exec/Query/Begin/Commit)
	FailAt   map[int]bool   // statement indices to fail
	FailKind map[string]int // "begin"/"insert"/"update"/"commit"/"delete"/"select": fail the k-th next occurrence (1-based), 0 off
	Fired    map[string]int
	Log      []string
	Latency  atomic.Int64 // simulated duration of every statement (ns); 0 = none
	// RowsFailAfter >= 0: the result set of the next query fails after that many rows (one shot). RowsFailed
	// tells whether it did.
	RowsFailAfter atomic.Int64
	RowsFailed    atomic.Bool
}

var SQLFaults = func() *sqlFaults {
	f := &sqlFaults{FailAt: map[int]bool{}, FailKind: map[string]int{}, Fired: map[string]int{}}
	f.RowsFailAfter.Store(-1)
	return f
}()

func (f *sqlFaults) Reset() {
	f.Latency.Store(0)
	f.RowsFailAfter.Store(-1)
	f.RowsFailed.Store(false)
	f.mu.Lock()
	f.n = 0
	f.FailAt = map[int]bool{}
	f.FailKind = map[string]int{}
	f.Fired = map[string]int{}
	f.Log = nil
	f.mu.Unlock()
}

func (f *sqlFaults) Arm(kind string, nth int) {
	f.mu.Lock()
	f.FailKind[kind] = nth
	f.mu.Unlock()
}

func stmtKind(q string) string {
	q = strings.ToLower(strings.TrimSpace(q))
	for _, k := range []string{"insert", "update", "delete", "select", "create", "drop"} {
		if strings.HasPrefix(q, k) {
			return k
		}
	}
	return "other"
}

var errInjected = errors.New("simsqlite3: injected failure")

func (f *sqlFaults) gate(kind string) error {
	// a statement takes (simulated) time: an instant read before a statement or a commit is not the instant
	// read after it
	// (only where the workload asks for it: a driver that settles between stimuli would take a session
	// sleeping inside a statement for an idle one)
	if d := time.Duration(f.Latency.Load()); d > 0 {
		time.Sleep(d)
	}
	f.mu.Lock()
	defer f.mu.Unlock()
	f.n++
	f.Log = append(f.Log, kind)
	if k := f.FailKind[kind]; k > 0 {
		k--
		f.FailKind[kind] = k
		if k == 0 {
			f.Fired["sql_"+kind+"_fail"]++
			return errInjected
		}
	}
	return nil
}

type simSQLDriver struct{ inner *sqlite3.SQLiteDriver }

func (d *simSQLDriver) Open(name string) (driver.Conn, error) {
	c, err := d.inner.Open(name)
	if err != nil {
		return nil, err
	}
	return &simSQLConn{c: c.(*sqlite3.SQLiteConn)}, nil
}

// Statements outside a transaction are scheduling points in interleaving mode (the caller parks BEFORE the
// statement runs, holding no database lock); statements inside a transaction are not, so that no task is
// ever parked while sqlite holds a lock for it.
type simSQLConn struct {
	c    *sqlite3.SQLiteConn
	inTx bool
}

func (c *simSQLConn) Prepare(q string) (driver.Stmt, error) { return c.c.Prepare(q) }
func (c *simSQLConn) Close() error                          { return c.c.Close() }
func (c *simSQLConn) Begin() (driver.Tx, error) {
	return c.BeginTx(context.Background(), driver.TxOptions{})
}
func (c *simSQLConn) BeginTx(ctx context.Context, o driver.TxOptions) (driver.Tx, error) {
	simsync.Yield("sql:begin")
	if err := SQLFaults.gate("begin"); err != nil {
		return nil, err
	}
	tx, err := c.c.BeginTx(ctx, o)
	if err != nil {
		return nil, err
	}
	c.inTx = true
	return &simSQLTx{tx, c}, nil
}
func (c *simSQLConn) ExecContext(ctx context.Context, q string, args []driver.NamedValue) (driver.Result, error) {
	if !c.inTx {
		simsync.Yield("sql:" + stmtKind(q))
	}
	if err := SQLFaults.gate(stmtKind(q)); err != nil {
		return nil, err
	}
	return c.c.ExecContext(ctx, q, args)
}
func (c *simSQLConn) QueryContext(ctx context.Context, q string, args []driver.NamedValue) (driver.Rows, error) {
	if !c.inTx {
		simsync.Yield("sql:" + stmtKind(q))
	}
	if err := SQLFaults.gate(stmtKind(q)); err != nil {
		return nil, err
	}
	rows, err := c.c.QueryContext(ctx, q, args)
	if k := SQLFaults.RowsFailAfter.Swap(-1); err == nil && k >= 0 {
		// the result set of this query fails after k rows (connection lost mid-cursor)
		return &simSQLRows{Rows: rows, left: int(k)}, nil
	}
	return rows, err
}

// simSQLRows fails after a number of rows.
type simSQLRows struct {
	driver.Rows
	left int
}

func (r *simSQLRows) Next(dest []driver.Value) error {
	if r.left == 0 {
		SQLFaults.RowsFailed.Store(true)
		return errors.New("simsqlite3: injected failure while reading the result set")
	}
	err := r.Rows.Next(dest)
	if err == nil {
		r.left--
	}
	return err
}
func (c *simSQLConn) Ping(ctx context.Context) error { return c.c.Ping(ctx) }

type simSQLTx struct {
	tx driver.Tx
	c  *simSQLConn
}

func (t *simSQLTx) Commit() error {
	t.c.inTx = false
	if err := SQLFaults.gate("commit"); err != nil {
		_ = t.tx.Rollback()
		return err
	}
	return t.tx.Commit()
}
func (t *simSQLTx) Rollback() error { t.c.inTx = false; return t.tx.Rollback() }

func init() {
	sql.Register("simsqlite3", &simSQLDriver{inner: &sqlite3.SQLiteDriver{}})
}

const sqliteSchema = `
CREATE TABLE IF NOT EXISTS messages (
  beginstring CHAR(8) NOT NULL, sendercompid VARCHAR(64) NOT NULL, sendersubid VARCHAR(64) NOT NULL,
  senderlocid VARCHAR(64) NOT NULL, targetcompid VARCHAR(64) NOT NULL, targetsubid VARCHAR(64) NOT NULL,
  targetlocid VARCHAR(64) NOT NULL, session_qualifier VARCHAR(64) NOT NULL, msgseqnum INT NOT NULL,
  message TEXT NOT NULL,
  PRIMARY KEY (beginstring, sendercompid, sendersubid, senderlocid, targetcompid, targetsubid, targetlocid, session_qualifier, msgseqnum));
CREATE TABLE IF NOT EXISTS sessions (
  beginstring CHAR(8) NOT NULL, sendercompid VARCHAR(64) NOT NULL, sendersubid VARCHAR(64) NOT NULL,
  senderlocid VARCHAR(64) NOT NULL, targetcompid VARCHAR(64) NOT NULL, targetsubid VARCHAR(64) NOT NULL,
  targetlocid VARCHAR(64) NOT NULL, session_qualifier VARCHAR(64) NOT NULL, creation_time DATETIME NOT NULL,
  incoming_seqnum INT NOT NULL, outgoing_seqnum INT NOT NULL,
  PRIMARY KEY (beginstring, sendercompid, sendersubid, senderlocid, targetcompid, targetsubid, targetlocid, session_qualifier));
`

var sqlDBCounter int

// NewSQLDatabase creates a fresh shared in-memory sqlite database with the shipped schema and
// returns its data source name plus a keeper connection (the database lives as long as it is open).
func NewSQLDatabase() (dsn string, keeper *sql.DB, err error) {
	sqlDBCounter++
	dsn = fmt.Sprintf("file:simdb%d_%s?mode=memory&cache=shared&_busy_timeout=2000", sqlDBCounter, Uniq())
	keeper, err = sql.Open("sqlite3", dsn)
	if err != nil {
		return "", nil, err
	}
	keeper.SetMaxOpenConns(1)
	if _, err = keeper.Exec(sqliteSchema); err != nil {
		return "", nil, err
	}
	return dsn, keeper, nil
}

func newSQLFactory(settings *quickfix.Settings) quickfix.MessageStoreFactory {
	return sqlstore.NewStoreFactory(settings)
}
