package harness

import (
	"sync/atomic"
	"crypto/tls"
	"runtime"
	"fmt"
	"net"
	"strconv"
	"strings"
	"sync"
	"time"

	"github.com/quickfixgo/quickfix"
	"github.com/quickfixgo/quickfix/config"
	filestore "github.com/quickfixgo/quickfix/store/file"
	"github.com/quickfixgo/quickfix/verifsim/simnet"
	"github.com/quickfixgo/quickfix/verifsim/simsync"

	"verifsim/wire"
)

// EngineCfg is the swarm configuration of one real engine.
type EngineCfg struct {
	Name        string // "E" (single engine) or "I"/"A"
	Initiator   bool
	BeginString string
	Sender      string // engine's SenderCompID
	Target      string
	Port        int
	HeartBtInt  int // seconds; initiator setting, or acceptor with HeartBtIntOverride
	HBOverride  bool
	ChunkSize   int
	ResetOnLogon, ResetOnLogout, ResetOnDisconnect, RefreshOnLogon bool
	PersistOff  bool
	CheckLatencyOff bool
	MaxLatency  int
	InChanCap   int // -1: default
	Store       string // "memory", "file", "sql"
	StoreDir    string
	DataDict    string // path or ""
	TransportDD string
	AppDD       string
	ReconnectInterval int
	LogonTimeout      int
	LogoutTimeout     int
	Extra       map[string]string // further session settings (schedules, validator options)
	TimestampPrecision string
	EnableLastMsgSeqNumProcessed bool
}

func (c EngineCfg) String() string {
	role := "acceptor"
	if c.Initiator {
		role = "initiator"
	}
	s := fmt.Sprintf("%s %s %s hb=%d chunk=%d store=%s", role, c.BeginString, c.Sender, c.HeartBtInt, c.ChunkSize, c.Store)
	if c.ResetOnLogon {
		s += " ResetOnLogon"
	}
	if c.ResetOnLogout {
		s += " ResetOnLogout"
	}
	if c.ResetOnDisconnect {
		s += " ResetOnDisconnect"
	}
	if c.RefreshOnLogon {
		s += " RefreshOnLogon"
	}
	if c.PersistOff {
		s += " PersistOff"
	}
	if c.DataDict != "" || c.AppDD != "" {
		s += " dict"
	}
	for k, v := range c.Extra {
		s += " " + k + "=" + v
	}
	return s
}

// ---------------------------------------------------------------------------------------------

type Engine struct {
	env  *Env
	Cfg  EngineCfg
	SID  quickfix.SessionID
	App  *App
	SF   *StoreFactory
	LF   *LogFactory
	acc  *quickfix.Acceptor
	ini  *quickfix.Initiator
	World *simnet.World
	stopped bool
	stopDone chan struct{}
	Dead bool // crashed/discarded: its callbacks are ignored
}

func (e *Engine) Name() string { return e.Cfg.Name }

func settingsFor(c EngineCfg) (*quickfix.Settings, quickfix.SessionID, error) {
	s := quickfix.NewSettings()
	g := s.GlobalSettings()
	if !c.Initiator {
		g.Set(config.SocketAcceptPort, strconv.Itoa(c.Port))
	}
	ss := quickfix.NewSessionSettings()
	ss.Set(config.BeginString, c.BeginString)
	ss.Set(config.SenderCompID, c.Sender)
	ss.Set(config.TargetCompID, c.Target)
	if c.BeginString == "FIXT.1.1" {
		ss.Set(config.DefaultApplVerID, "FIX.5.0SP2")
		if c.TransportDD != "" {
			ss.Set(config.TransportDataDictionary, c.TransportDD)
			ss.Set(config.AppDataDictionary, c.AppDD)
		}
	} else if c.DataDict != "" {
		ss.Set(config.DataDictionary, c.DataDict)
	}
	if c.Initiator {
		ss.Set(config.SocketConnectHost, "127.0.0.1")
		ss.Set(config.SocketConnectPort, strconv.Itoa(c.Port))
		ss.Set(config.HeartBtInt, strconv.Itoa(c.HeartBtInt))
		if c.ReconnectInterval > 0 {
			ss.Set(config.ReconnectInterval, strconv.Itoa(c.ReconnectInterval))
		}
		if c.LogonTimeout > 0 {
			ss.Set(config.LogonTimeout, strconv.Itoa(c.LogonTimeout))
		}
		if c.LogoutTimeout > 0 {
			ss.Set(config.LogoutTimeout, strconv.Itoa(c.LogoutTimeout))
		}
	} else if c.HBOverride {
		ss.Set(config.HeartBtIntOverride, "Y")
		ss.Set(config.HeartBtInt, strconv.Itoa(c.HeartBtInt))
	}
	if c.ChunkSize > 0 {
		ss.Set(config.ResendRequestChunkSize, strconv.Itoa(c.ChunkSize))
	}
	yn := func(k string, v bool) {
		if v {
			ss.Set(k, "Y")
		}
	}
	yn(config.ResetOnLogon, c.ResetOnLogon)
	yn(config.ResetOnLogout, c.ResetOnLogout)
	yn(config.ResetOnDisconnect, c.ResetOnDisconnect)
	yn(config.RefreshOnLogon, c.RefreshOnLogon)
	yn(config.EnableLastMsgSeqNumProcessed, c.EnableLastMsgSeqNumProcessed)
	if c.PersistOff {
		ss.Set(config.PersistMessages, "N")
	}
	if c.CheckLatencyOff {
		ss.Set(config.CheckLatency, "N")
	}
	if c.MaxLatency > 0 {
		ss.Set(config.MaxLatency, strconv.Itoa(c.MaxLatency))
	}
	if c.InChanCap >= 0 {
		ss.Set(config.InChanCapacity, strconv.Itoa(c.InChanCap))
	}
	if c.TimestampPrecision != "" {
		ss.Set(config.TimeStampPrecision, c.TimestampPrecision)
	}
	switch c.Store {
	case "file":
		ss.Set(config.FileStorePath, c.StoreDir)
		ss.Set(config.FileStoreSync, "Y")
	case "sql":
		ss.Set(config.SQLStoreDriver, "simsqlite3")
		ss.Set(config.SQLStoreDataSourceName, c.StoreDir)
	}
	for k, v := range c.Extra {
		ss.Set(k, v)
	}
	sid, err := s.AddSession(ss)
	return s, sid, err
}

// NewEngine creates (does not start) a real engine on the given world.
func NewEngine(env *Env, w *simnet.World, c EngineCfg) (*Engine, error) {
	e := &Engine{env: env, Cfg: c, World: w}
	settings, sid, err := settingsFor(c)
	if err != nil {
		return nil, err
	}
	e.SID = sid
	e.App = &App{env: env, eng: e, stream: "app:" + c.Name}
	var inner quickfix.MessageStoreFactory
	switch c.Store {
	case "file":
		inner = filestore.NewStoreFactory(settings)
	case "sql":
		inner = newSQLFactory(settings)
	default:
		inner = quickfix.NewMemoryStoreFactory()
	}
	e.SF = &StoreFactory{env: env, eng: e, inner: inner}
	lf := &LogFactory{env: env, eng: e}
	e.LF = lf
	if c.Initiator {
		e.ini, err = quickfix.NewInitiator(e.App, e.SF, settings, lf)
	} else {
		e.acc, err = quickfix.NewAcceptor(e.App, e.SF, settings, lf)
		if err == nil {
			e.acc.SetNewListenerCallback(func(address string, _ *tls.Config) (net.Listener, error) {
				return w.Listen(address)
			})
		}
	}
	if err != nil {
		return nil, err
	}
	return e, nil
}

func (e *Engine) Start() error {
	if e.ini != nil {
		return e.ini.Start()
	}
	return e.acc.Start()
}

// StopAsync requests a clean stop on its own goroutine (Stop blocks until the session loop ends).
func (e *Engine) StopAsync() {
	if e.stopped {
		return
	}
	e.stopped = true
	e.stopDone = make(chan struct{})
	go func() {
		defer close(e.stopDone)
		if e.ini != nil {
			e.ini.Stop()
		} else {
			e.acc.Stop()
		}
	}()
}

func (e *Engine) StopFinished() bool {
	if e.stopDone == nil {
		return false
	}
	select {
	case <-e.stopDone:
		return true
	default:
		return false
	}
}

func (e *Engine) Store() *StoreRec { return e.SF.Last }

// Send submits an application message through the public API. body fields are set in order.
func (e *Engine) Send(msgType string, body []wire.Field) error {
	m := quickfix.NewMessage()
	m.Header.SetString(quickfix.Tag(35), msgType)
	for _, f := range body {
		m.Body.SetString(quickfix.Tag(f.Tag), f.Val)
	}
	return quickfix.SendToTarget(m, e.SID)
}

// ---------------------------------------------------------------------------------------------
// Application seam
// ---------------------------------------------------------------------------------------------

type AppCall struct {
	N     int // global event number
	Kind  string
	Type  string
	Seq   int
	ID    string // tag 58 of the message, the harness's message identity
	T     int    // NextTargetMsgSeqNum read from the store inside the callback (FromApp/FromAdmin)
	S     int
	PossDup bool
	At    time.Time
	Task  string
}

type App struct {
	env    *Env
	eng    *Engine
	stream string
	mu     sync.Mutex
	Calls  []AppCall
	// Policies, decided from message identity (never from a sequential draw).
	RefuseToApp    func(c AppCall) bool // true: ToApp returns an error (do-not-send)
	RejectFromApp  func(c AppCall) quickfix.MessageRejectError
	RejectFromAdmin func(c AppCall) quickfix.MessageRejectError
	OnCall         func(c AppCall)
	// SlowNext makes the next inbound callback (FromAdmin/FromApp) take that long in simulated time: a slow
	// application. Set by the driver at quiescence; consumed by the callback.
	SlowNext atomic.Int64
	// SlowSeq: durations for the next inbound callbacks, one each, in order (a busy application working
	// through a burst). SlowEnd is the simulated instant the last such callback returned.
	SlowSeq []time.Duration
	SlowEnd time.Time
	SlowDone int
	SlowOut []time.Duration // the same for ToAdmin of messages other than the Logon
}

func (a *App) slow() {
	if d := a.SlowNext.Swap(0); d > 0 {
		a.env.Stat("fault_slow_callback")
		simsync.SleepHoldingLocks(time.Duration(d))
	}
	a.mu.Lock()
	var d time.Duration
	if len(a.SlowSeq) > 0 {
		d = a.SlowSeq[0]
		a.SlowSeq = a.SlowSeq[1:]
	}
	a.mu.Unlock()
	if d > 0 {
		a.env.Stat("fault_slow_callback")
		simsync.SleepHoldingLocks(d)
		a.mu.Lock()
		a.SlowEnd = time.Now()
		a.SlowDone++
		a.mu.Unlock()
	}
}

// SlowLeft reports how many planned slow callbacks have not started yet, how many have returned, and when the last
// one returned.
func (a *App) SlowLeft() (left, done int, end time.Time) {
	a.mu.Lock()
	defer a.mu.Unlock()
	return len(a.SlowSeq), a.SlowDone, a.SlowEnd
}

func (a *App) rec(kind string, m *quickfix.Message) AppCall {
	c := AppCall{Kind: kind, At: time.Now(), Task: simsync.TaskName()}
	if m != nil {
		c.Type, _ = m.Header.GetString(quickfix.Tag(35))
		if n, err := m.Header.GetInt(quickfix.Tag(34)); err == nil {
			c.Seq = n
		} else {
			c.Seq = -1
		}
		c.ID, _ = m.Body.GetString(quickfix.Tag(58))
		if pd, err := m.Header.GetString(quickfix.Tag(43)); err == nil && pd == "Y" {
			c.PossDup = true
		}
	}
	if st := a.eng.SF.Last; st != nil {
		c.T = st.inner.NextTargetMsgSeqNum()
		c.S = st.inner.NextSenderMsgSeqNum()
	}
	if a.eng.Dead {
		return c
	}
	c.N = a.env.Rec(a.stream, kind, fmt.Sprintf("%s seq=%d id=%s T=%d", c.Type, c.Seq, c.ID, c.T), true)
	a.mu.Lock()
	a.Calls = append(a.Calls, c)
	a.mu.Unlock()
	if a.OnCall != nil {
		a.OnCall(c)
	}
	return c
}

// LoggedOn reports whether the last logon/logout notification was a logon.
func (a *App) LoggedOn() bool {
	a.mu.Lock()
	defer a.mu.Unlock()
	for i := len(a.Calls) - 1; i >= 0; i-- {
		switch a.Calls[i].Kind {
		case "OnLogon":
			return true
		case "OnLogout":
			return false
		}
	}
	return false
}

func (a *App) Snapshot() []AppCall {
	a.mu.Lock()
	defer a.mu.Unlock()
	return append([]AppCall(nil), a.Calls...)
}

func (a *App) OnCreate(quickfix.SessionID) { a.rec("OnCreate", nil) }
func (a *App) OnLogon(quickfix.SessionID)  { a.rec("OnLogon", nil); simsync.Yield("app:OnLogon") }
func (a *App) OnLogout(quickfix.SessionID) { a.rec("OnLogout", nil); simsync.Yield("app:OnLogout") }
func (a *App) ToAdmin(m *quickfix.Message, _ quickfix.SessionID) {
	c := a.rec("ToAdmin", m)
	simsync.Yield("app:ToAdmin")
	if c.Type != "A" {
		// a slow outbound callback (SlowOut): the session goroutine is held up while SENDING an admin message
		a.mu.Lock()
		var d time.Duration
		if len(a.SlowOut) > 0 {
			d = a.SlowOut[0]
			a.SlowOut = a.SlowOut[1:]
		}
		a.mu.Unlock()
		if d > 0 {
			a.env.Stat("fault_slow_outbound_callback")
			simsync.SleepHoldingLocks(d)
		}
	}
}
func (a *App) ToApp(m *quickfix.Message, _ quickfix.SessionID) error {
	c := a.rec("ToApp", m)
	simsync.Yield("app:ToApp")
	if a.RefuseToApp != nil && a.RefuseToApp(c) {
		return fmt.Errorf("do not send")
	}
	return nil
}
func (a *App) FromAdmin(m *quickfix.Message, _ quickfix.SessionID) quickfix.MessageRejectError {
	c := a.rec("FromAdmin", m)
	simsync.Yield("app:FromAdmin")
	a.slow()
	if a.RejectFromAdmin != nil {
		return a.RejectFromAdmin(c)
	}
	return nil
}
func (a *App) FromApp(m *quickfix.Message, _ quickfix.SessionID) quickfix.MessageRejectError {
	c := a.rec("FromApp", m)
	simsync.Yield("app:FromApp")
	a.slow()
	if a.RejectFromApp != nil {
		return a.RejectFromApp(c)
	}
	return nil
}

// ---------------------------------------------------------------------------------------------
// Store seam
// ---------------------------------------------------------------------------------------------

type StoreCall struct {
	N    int
	Op   string
	A, B int
	Msg  []byte
	Err  string
	At   time.Time
	Task string
}

type StoreFactory struct {
	env   *Env
	eng   *Engine
	inner quickfix.MessageStoreFactory
	Last  *StoreRec
	All   []*StoreRec
	// Fail, when set, is consulted before every write that assigns an outbound number; a non-nil error is
	// returned to the engine instead of performing the write (a store that refuses: disk full, SQL error).
	Fail func(op string, n int) error
	// IterFailAfter >= 0: the next IterateMessages fails (once) after that many messages have been handed
	// to the callback - a read error in the middle of a range. IterFailed reports that it happened.
	IterFailAfter int
	IterFailed    bool
	armedIter     bool
}

// ArmIterFail makes the next IterateMessages fail after k delivered messages.
func (f *StoreFactory) ArmIterFail(k int) { f.IterFailAfter, f.armedIter, f.IterFailed = k, true, false }

func (f *StoreFactory) Create(sid quickfix.SessionID) (quickfix.MessageStore, error) {
	in, err := f.inner.Create(sid)
	if err != nil {
		return nil, err
	}
	r := &StoreRec{env: f.env, eng: f.eng, inner: in, stream: "store:" + f.eng.Cfg.Name}
	f.Last = r
	f.All = append(f.All, r)
	return r, nil
}

type StoreRec struct {
	env    *Env
	eng    *Engine
	inner  quickfix.MessageStore
	stream string
	mu     sync.Mutex
	Calls  []StoreCall
	OnCall func(c StoreCall)
}

func (s *StoreRec) Inner() quickfix.MessageStore { return s.inner }

func (s *StoreRec) rec(op string, a, b int, msg []byte, err error) {
	if s.eng.Dead {
		return
	}
	c := StoreCall{Op: op, A: a, B: b, Msg: msg, At: time.Now(), Task: simsync.TaskName()}
	if err != nil {
		c.Err = err.Error()
	}
	d := fmt.Sprintf("%d %d", a, b)
	if msg != nil {
		d += " " + string(msg)
	}
	if err != nil {
		d += " err=" + c.Err
	}
	c.N = s.env.Rec(s.stream, op, d, true)
	s.mu.Lock()
	s.Calls = append(s.Calls, c)
	s.mu.Unlock()
	if s.OnCall != nil {
		s.OnCall(c)
	}
}

func (s *StoreRec) Snapshot() []StoreCall {
	s.mu.Lock()
	defer s.mu.Unlock()
	return append([]StoreCall(nil), s.Calls...)
}

func (s *StoreRec) NextSenderMsgSeqNum() int {
	simsync.Yield("store:NextSender")
	return s.inner.NextSenderMsgSeqNum()
}
func (s *StoreRec) NextTargetMsgSeqNum() int { return s.inner.NextTargetMsgSeqNum() }
func (s *StoreRec) IncrNextSenderMsgSeqNum() error {
	simsync.Yield("store:IncrSender")
	if f := s.eng.SF.Fail; f != nil {
		if err := f("IncrSender", s.inner.NextSenderMsgSeqNum()); err != nil {
			s.rec("IncrSender", s.inner.NextSenderMsgSeqNum(), 0, nil, err)
			return err
		}
	}
	err := s.inner.IncrNextSenderMsgSeqNum()
	s.rec("IncrSender", s.inner.NextSenderMsgSeqNum(), 0, nil, err)
	return err
}
func (s *StoreRec) IncrNextTargetMsgSeqNum() error {
	if f := s.eng.SF.Fail; f != nil {
		// (op "IncrTarget": only workloads that ask for it refuse the inbound counter)
		if err := f("IncrTarget", s.inner.NextTargetMsgSeqNum()); err != nil {
			s.rec("IncrTarget", s.inner.NextTargetMsgSeqNum(), 0, nil, err)
			return err
		}
	}
	err := s.inner.IncrNextTargetMsgSeqNum()
	s.rec("IncrTarget", s.inner.NextTargetMsgSeqNum(), 0, nil, err)
	return err
}
func (s *StoreRec) SetNextSenderMsgSeqNum(n int) error {
	err := s.inner.SetNextSenderMsgSeqNum(n)
	s.rec("SetSender", n, 0, nil, err)
	return err
}
func (s *StoreRec) SetNextTargetMsgSeqNum(n int) error {
	prev := s.inner.NextTargetMsgSeqNum()
	err := s.inner.SetNextTargetMsgSeqNum(n)
	s.rec("SetTarget", n, prev, nil, err)
	return err
}
func (s *StoreRec) CreationTime() time.Time     { return s.inner.CreationTime() }
func (s *StoreRec) SetCreationTime(t time.Time) { s.inner.SetCreationTime(t) }
func (s *StoreRec) SaveMessage(n int, m []byte) error {
	simsync.Yield("store:Save")
	err := s.inner.SaveMessage(n, m)
	s.rec("Save", n, 0, append([]byte(nil), m...), err)
	return err
}
func (s *StoreRec) SaveMessageAndIncrNextSenderMsgSeqNum(n int, m []byte) error {
	simsync.Yield("store:SaveIncr")
	if f := s.eng.SF.Fail; f != nil {
		if err := f("SaveIncr", n); err != nil {
			s.rec("SaveIncr", n, s.inner.NextSenderMsgSeqNum(), append([]byte(nil), m...), err)
			simsync.Yield("store:SaveIncr.done")
			return err
		}
	}
	err := s.inner.SaveMessageAndIncrNextSenderMsgSeqNum(n, m)
	s.rec("SaveIncr", n, s.inner.NextSenderMsgSeqNum(), append([]byte(nil), m...), err)
	simsync.Yield("store:SaveIncr.done")
	return err
}
func (s *StoreRec) GetMessages(b, e int) ([][]byte, error) {
	r, err := s.inner.GetMessages(b, e)
	s.rec("Get", b, e, nil, err)
	return r, err
}
func (s *StoreRec) IterateMessages(b, e int, cb func([]byte) error) error {
	s.rec("Iterate", b, e, nil, nil)
	simsync.Yield("store:Iterate")
	if f := s.eng.SF; f.IterFailAfter >= 0 && f.armedIter {
		k, n := f.IterFailAfter, 0
		f.armedIter = false
		return s.inner.IterateMessages(b, e, func(m []byte) error {
			if n == k {
				f.IterFailed = true
				s.env.Stat("fault_store_read_error_mid_range")
				return fmt.Errorf("injected: read error after %d messages", k)
			}
			n++
			return cb(m)
		})
	}
	return s.inner.IterateMessages(b, e, cb)
}
func (s *StoreRec) Refresh() error {
	err := s.inner.Refresh()
	s.rec("Refresh", 0, 0, nil, err)
	return err
}
func (s *StoreRec) Reset() error {
	err := s.inner.Reset()
	s.rec("Reset", 0, 0, nil, err)
	return err
}
func (s *StoreRec) Close() error { return s.inner.Close() }

// ---------------------------------------------------------------------------------------------
// Log seam
// ---------------------------------------------------------------------------------------------

type LogFactory struct {
	env *Env
	eng *Engine
	In  [][]byte
	Out [][]byte
	Events []string
	InN    []int // event number of each inbound frame (parallel to In)
	mu  sync.Mutex
	OnIn func(b []byte)
}

type simLog struct {
	f      *LogFactory
	global bool
}

func (f *LogFactory) Create() (quickfix.Log, error) { return &simLog{f: f, global: true}, nil }
func (f *LogFactory) CreateSessionLog(quickfix.SessionID) (quickfix.Log, error) {
	return &simLog{f: f}, nil
}

func (l *simLog) OnIncoming(b []byte) {
	if l.f.eng.Dead {
		return
	}
	c := append([]byte(nil), b...)
	n := l.f.env.Rec("log:"+l.f.eng.Cfg.Name, "in", string(c), true)
	l.f.mu.Lock()
	l.f.In = append(l.f.In, c)
	l.f.InN = append(l.f.InN, n)
	l.f.mu.Unlock()
	if l.f.OnIn != nil {
		l.f.OnIn(c)
	}
}
func (l *simLog) OnOutgoing(b []byte) {
	if l.f.eng.Dead {
		return
	}
	c := append([]byte(nil), b...)
	l.f.mu.Lock()
	l.f.Out = append(l.f.Out, c)
	l.f.mu.Unlock()
	l.f.env.Rec("log:"+l.f.eng.Cfg.Name, "out", string(c), true)
	// R2: let writeLoop (made runnable by the hand-off just before this call) take the message to
	// the transport and return to its receive before the sender continues; otherwise the engine's
	// non-blocking hand-off of the next queued message spins until the runtime preempts it.
	runtime.Gosched()
	simsync.Yield("log:OnOutgoing")
}
func (l *simLog) OnEvent(s string) {
	if l.f.eng.Dead {
		return
	}
	l.f.mu.Lock()
	l.f.Events = append(l.f.Events, s)
	l.f.mu.Unlock()
	l.f.env.Rec("log:"+l.f.eng.Cfg.Name, "event", s, false)
}
func (l *simLog) OnEventf(f string, a ...interface{}) { l.OnEvent(fmt.Sprintf(f, a...)) }

func (f *LogFactory) EventsContaining(sub string) int {
	f.mu.Lock()
	defer f.mu.Unlock()
	n := 0
	for _, e := range f.Events {
		if strings.Contains(e, sub) {
			n++
		}
	}
	return n
}
