package harness

import (
	"errors"

	"bytes"
	"fmt"
	"github.com/quickfixgo/quickfix/verifsim/simos"
	"time"

	"github.com/quickfixgo/quickfix"

	"verifsim/wire"
)

// C03 — a ResendRequest is answered by an exact, contiguous, well-formed replay.
//
// The reference replay is computed from the OBSERVED history: the bytes the engine itself saved
// under each number (store wrapper), classified by the independent scanner.

func init() {
	Register(&Property{ID: "C03", Run: runC03,
		Rule: "one real engine; phase 1 builds a send history of 5-60 numbers (application messages with and without repeating/nested groups, with and without FIX42/FIX44 dictionaries; heartbeats, rejects, test requests, logons after reconnects; messages sent while disconnected); phase 2 sends 3-10 ResendRequests with ranges inside/empty/inverted/beyond the end/0 and 999999 end markers/single/whole; application refusing a hash-chosen subset on resend; persistence on/off; memory/file/SQL stores; histories of 110-310 numbers in a share of the runs; BeginSeqNo 0; faults: disk write/sync errors (also short writes) inside saves with the file store, store read error after k messages of the range; RawData fields containing the delimiter; the operator moving the next outbound number forward (numbers used up without stored messages). Non-trivial: a reply contained both a resent application message and a gap fill; distinct: canonical trace hash"})
}

func c03Body(c EngineCfg, id string, variant int) *quickfix.Message {
	if variant == 3 {
		// MarketDataRequest: the group count 146 sorts before every other body field, and the 267
		// group is the last thing in the body
		m := quickfix.NewMessage()
		m.Header.SetString(quickfix.Tag(35), "V")
		m.Body.SetString(quickfix.Tag(262), "REQ"+id)
		m.Body.SetString(quickfix.Tag(263), "1")
		m.Body.SetString(quickfix.Tag(264), "0")
		if len(id)%2 == 0 {
			m.Body.SetString(quickfix.Tag(265), "0") // something after the 267 group in some messages? no: 265 < 267
		}
		g := quickfix.NewRepeatingGroup(quickfix.Tag(146), quickfix.GroupTemplate{quickfix.GroupElement(55), quickfix.GroupElement(65)})
		for i := 0; i < 2; i++ {
			e := g.Add()
			e.SetString(quickfix.Tag(55), fmt.Sprintf("SYM%d", i))
			if i == 0 {
				e.SetString(quickfix.Tag(65), "A")
			}
		}
		m.Body.SetGroup(g)
		t := quickfix.NewRepeatingGroup(quickfix.Tag(267), quickfix.GroupTemplate{quickfix.GroupElement(269)})
		t.Add().SetString(quickfix.Tag(269), "0")
		t.Add().SetString(quickfix.Tag(269), "1")
		m.Body.SetGroup(t)
		if len(id)%3 == 0 {
			m.Body.SetString(quickfix.Tag(547), "Y") // a field after the last group
		}
		return m
	}
	m := quickfix.NewMessage()
	m.Header.SetString(quickfix.Tag(35), "D")
	set := func(t int, v string) { m.Body.SetString(quickfix.Tag(t), v) }
	set(11, "C"+id)
	set(21, "1")
	set(55, "SYM")
	set(54, "1")
	set(38, "100")
	set(40, "1")
	set(58, id)
	if c.BeginString >= "FIX.4.2" {
		set(60, "20000101-00:00:00")
	}
	if id[len(id)-1] == '7' || id[len(id)-1] == '2' {
		// RawData with its length field: the data may contain the field delimiter
		set(95, "5")
		set(96, "ab\x01cd")
	}
	switch variant {
	case 1: // flat group
		g := quickfix.NewRepeatingGroup(quickfix.Tag(78), quickfix.GroupTemplate{quickfix.GroupElement(79), quickfix.GroupElement(80)})
		for i := 0; i < 2+len(id)%2; i++ {
			e := g.Add()
			e.SetString(quickfix.Tag(79), fmt.Sprintf("ACC%d", i))
			e.SetString(quickfix.Tag(80), fmt.Sprintf("%d", 10*(i+1)))
		}
		m.Body.SetGroup(g)
	case 4: // Parties group as the LAST thing in the body (FIX.4.3+ NewOrderSingle: 453 -> 448,447,452)
		g := quickfix.NewRepeatingGroup(quickfix.Tag(453), quickfix.GroupTemplate{quickfix.GroupElement(448), quickfix.GroupElement(447), quickfix.GroupElement(452)})
		e := g.Add()
		e.SetString(quickfix.Tag(448), "party-"+id)
		e.SetString(quickfix.Tag(447), "D")
		e.SetString(quickfix.Tag(452), "1")
		m.Body.SetGroup(g)
	case 2: // nested group (FIX.4.4 layout: NoAllocs -> NoNestedPartyIDs)
		nested := quickfix.NewRepeatingGroup(quickfix.Tag(539), quickfix.GroupTemplate{quickfix.GroupElement(524), quickfix.GroupElement(525), quickfix.GroupElement(538)})
		g := quickfix.NewRepeatingGroup(quickfix.Tag(78), quickfix.GroupTemplate{quickfix.GroupElement(79), nested, quickfix.GroupElement(80)})
		for i := 0; i < 2; i++ {
			e := g.Add()
			e.SetString(quickfix.Tag(79), fmt.Sprintf("ACC%d", i))
			if i == 0 {
				n := quickfix.NewRepeatingGroup(quickfix.Tag(539), quickfix.GroupTemplate{quickfix.GroupElement(524), quickfix.GroupElement(525), quickfix.GroupElement(538)})
				for k := 0; k < 2; k++ {
					ne := n.Add()
					ne.SetString(quickfix.Tag(524), fmt.Sprintf("P%d", k))
					ne.SetString(quickfix.Tag(525), "D")
					ne.SetString(quickfix.Tag(538), "3")
				}
				e.SetGroup(n)
			}
			e.SetString(quickfix.Tag(80), fmt.Sprintf("%d", 10*(i+1)))
		}
		m.Body.SetGroup(g)
	}
	return m
}

func runC03(env *Env, tier string) {
	ch := env.Ch
	c := DrawBaseCfg(env)
	c.HeartBtInt = []int{30, 5}[ch.Choose("hb", 2)]
	c.PersistOff = ch.Chance("persistoff", 1, 6)
	c.TimestampPrecision = []string{"", "", "MICROS", "NANOS", "SECONDS"}[ch.Choose("precision", 5)]
	dict := false
	if ch.Chance("dict", 1, 4) {
		// dictionaries for the versions whose NewOrderSingle the harness can build
		c.BeginString = []string{"FIX.4.2", "FIX.4.4"}[ch.Choose("dictversion", 2)]
		c.DataDict = "/repo/spec/" + map[string]string{"FIX.4.2": "FIX42.xml", "FIX.4.4": "FIX44.xml"}[c.BeginString]
		dict = true
	}
	switch ch.Weighted("store", []int{5, 3, 2}) {
	case 1:
		c.Store = "file"
		c.StoreDir = "/store/c03"
	case 2:
		c.Store = "sql"
		dsn, keeper, err := NewSQLDatabase()
		if err != nil {
			env.Fatalf("sqlite: %v", err)
		}
		env.OnCleanup(func() { keeper.Close() })
		c.StoreDir = dsn
	}
	s := StartSut(env, c)
	p := s.P
	seed := env.Seed
	refuses := func(seq int) bool { return mix(seed, uint64(seq), 77)%4 == 0 }
	s.E.App.RefuseToApp = func(ac AppCall) bool { return ac.PossDup && refuses(ac.Seq) }
	a := NewAdv(s, c.HeartBtInt, AdvOpts{HonestLogon: true})
	if !a.ensureSession() {
		env.Fatalf("logon failed")
	}
	maxVariant := 1
	if !dict || c.BeginString == "FIX.4.4" {
		maxVariant = 4
	}

	// ---------------------------------------------------------------- phase 1: history
	nsend := 0
	target := 5 + ch.Choose("history", 56)
	maxGuard := 300
	if ch.Chance("longhistory", 1, 12) {
		// ranges of well over a hundred numbers
		target = 110 + ch.Choose("longhistorylen", 200)
		maxGuard = 1500
		env.Stat("probe_long_history")
	}
	for guard := 0; a.engS() < target && guard < maxGuard && !env.Failed(); guard++ {
		if !a.ensureSession() {
			break
		}
		p.OutSeq = a.engT()
		switch ch.Weighted("hist", []int{8, 4, 2, 2, 2, 2, 1}) {
		case 0, 1:
			nsend++
			v := 0
			if ch.Chance("group", 1, 2) {
				v = 1 + ch.Choose("groupkind", maxVariant)
			}
			id := fmt.Sprintf("e%d", nsend)
			// file store: in a share of the sends the disk fails somewhere inside the save (a write or a
			// sync returns an error, a write possibly after some of its bytes)
			armed := false
			if c.Store == "file" && !c.PersistOff && ch.Chance("diskfault", 1, 5) {
				flt := simos.Fault{Err: errors.New("injected: input/output error")}
				if ch.Chance("shortwrite", 1, 2) {
					flt.Short = 1 + ch.Choose("shortbytes", 12)
				}
				simos.Current().ArmWriteFault(1+ch.Choose("diskfaultop", 6), flt)
				armed = true
			}
			err := quickfix.SendToTarget(c03Body(c, id, v), s.E.SID)
			if armed {
				if !simos.Current().DisarmWriteFault() {
					env.Stat("fault_disk_write_error_in_save")
				}
			} else if err != nil {
				env.Fatalf("send: %v", err)
			}
			env.Settle()
			p.Collect()
			env.Note("engine app %s variant %d -> number %d", id, v, a.engS()-1)
		case 2: // test request -> heartbeat (administrative number)
			p.Send("1", []wire.Field{wire.F(112, "T"+p.NextID())}, MsgOpt{})
		case 3: // provoke a Reject (administrative number)
			body := AppBody(p.NextID())
			body[len(body)-1].Val = "" // 58= : tag specified without a value
			p.Send("D", body, MsgOpt{})
		case 4: // idle: heartbeat timer
			env.Advance(time.Duration(c.HeartBtInt)*time.Second + 500*time.Millisecond)
			p.Collect()
			p.Send("0", nil, MsgOpt{}) // keep the engine's peer timer quiet
		case 5: // reconnect: another Logon in the history
			p.Drop()
			env.Stat("fault_connection_cut")
		case 6: // send while disconnected: persisted, never transmitted
			p.Drop()
			for k := 1 + ch.Choose("offline", 3); k > 0; k-- {
				nsend++
				id := fmt.Sprintf("e%d", nsend)
				quickfix.SendToTarget(c03Body(c, id, 0), s.E.SID)
				env.Settle()
				env.Note("engine app %s while disconnected -> number %d", id, a.engS()-1)
			}
			env.Stat("probe_sent_while_disconnected")
		}
	}
	if env.Failed() || !a.ensureSession() {
		return
	}

	// ---------------------------------------------------------------- phase 2: requests
	marker42 := c.BeginString >= "FIX.4.2"
	nreq := 3 + ch.Choose("requests", 8)
	for q := 0; q < nreq && !env.Failed(); q++ {
		if !a.ensureSession() {
			break
		}
		p.OutSeq = a.engT()
		if ch.Chance("operatorskipsnumbers", 1, 12) {
			// an operator moves the next outbound number forward (public API): the numbers in between are
			// used up, nothing is stored under them
			k := 1 + ch.Choose("skippednumbers", 5)
			if err := quickfix.SetNextSenderMsgSeqNum(s.E.SID, a.engS()+k); err != nil {
				env.Fatalf("SetNextSenderMsgSeqNum: %v", err)
			}
			env.Note("operator set the next outbound number to %d", a.engS())
			env.Stat("probe_sender_number_moved_forward")
		}
		S := a.engS()
		last := S - 1
		// observed history: what the engine itself saved, per number (current epoch)
		saved := map[int][]byte{}
		for _, sr := range s.E.SF.All {
			for _, call := range sr.Snapshot() {
				switch call.Op {
				case "SaveIncr", "Save":
					if call.Err == "" {
						saved[call.A] = call.Msg
					}
				case "Reset":
					saved = map[int][]byte{}
				}
			}
		}
		b := 1 + ch.Choose("b", last+3)
		if ch.Chance("beginzero", 1, 20) {
			b = 0 // no message carries number 0: the coverage can only begin at 1
		}
		var e int
		switch ch.Weighted("e", []int{4, 3, 2, 1, 1, 1}) {
		case 0:
			e = 0
		case 1:
			e = b + ch.Choose("len", 8)
		case 2:
			e = b // single number
		case 3:
			e = 999999
		case 4:
			e = b - 1 - ch.Choose("inv", 2) // inverted
			if e < 1 {
				e = 1
			}
		case 5:
			e = last + 1 + ch.Choose("beyond", 5)
		}
		end := e
		if (marker42 && e == 0) || (c.BeginString <= "FIX.4.2" && e == 999999) || e >= S {
			end = last
		}
		env.Note("ResendRequest %d..%d (last used %d, clipped end %d)", b, e, last, end)
		sBefore := S
		// in a share of the requests the store fails in the middle of reading the range
		readFault := !c.PersistOff && ch.Chance("readfault", 1, 8)
		sqlRowsFault := false
		if readFault {
			if c.Store == "sql" && ch.Chance("readfaultinresultset", 1, 2) {
				// ... inside the database's result set (the query succeeds, fetching a row fails)
				SQLFaults.RowsFailed.Store(false)
				SQLFaults.RowsFailAfter.Store(int64(ch.Choose("readfaultafter", 6)))
				sqlRowsFault = true
			} else {
				s.E.SF.ArmIterFail(ch.Choose("readfaultafter", 6))
			}
		}
		r := p.Send("2", []wire.Field{wire.FI(7, b), wire.FI(16, e)}, MsgOpt{})
		if sqlRowsFault {
			SQLFaults.RowsFailAfter.Store(-1)
			readFault = SQLFaults.RowsFailed.Load()
			if readFault {
				env.Stat("fault_store_read_error_mid_range")
			}
		} else {
			readFault = readFault && s.E.SF.IterFailed
		}
		s.E.SF.armedIter = false
		if a.engS() != sBefore {
			env.Violate("C03/consumed-numbers", "answering a ResendRequest moved the next outbound number from %d to %d", sBefore, a.engS())
			break
		}
		class := func(n int) string {
			raw, ok := saved[n]
			if !ok || c.PersistOff {
				return "skip"
			}
			m, err := wire.Scan(raw)
			if err != nil || m.IsAdmin() || refuses(n) {
				return "skip"
			}
			return "app"
		}
		pos := b
		if pos < 1 {
			pos = 1
		}
		sawApp, sawFill := false, false
		for _, x := range r {
			if b > end {
				env.Violate("C03/outside-range", "range %d..%d is empty (last used %d) but the engine wrote %s", b, e, last, summarize([]RecvMsg{x}))
				break
			}
			if !x.PossDup() {
				env.Violate("C03/first-time-in-replay", "message without PossDupFlag=Y inside the reply: %s", summarize([]RecvMsg{x}))
				break
			}
			if err := wire.CheckFrame(x.Raw); err != nil {
				env.Violate("C03/envelope", "replayed frame is not well-formed: %v: %q", err, x.Raw)
				break
			}
			if x.Seq() != pos {
				env.Violate("C03/contiguity", "reply element carries MsgSeqNum %d, coverage so far ends at %d (request %d..%d): %s", x.Seq(), pos, b, e, summarize(r))
				break
			}
			if x.Type() == "4" {
				to := x.IntOr(36, -1)
				if x.Str(123) != "Y" || to <= pos || to > end+1 {
					env.Violate("C03/gapfill", "gap fill 34=%d 36=%d 123=%q does not fit the range %d..%d", pos, to, x.Str(123), b, end)
					break
				}
				for n := pos; n < to; n++ {
					if class(n) == "app" {
						env.Violate("C03/gapfill-hides-message", "gap fill %d->%d covers application message %d which the application did not decline", pos, to, n)
					}
				}
				if to <= end && class(to) != "app" {
					env.Violate("C03/gapfill-newseqno", "gap fill %d->%d: NewSeqNo is neither the next number replayed nor one past the range end %d", pos, to, end)
				}
				pos = to
				sawFill = true
				env.Stat("probe_gap_fill_in_reply")
				continue
			}
			// a resent message
			if class(pos) != "app" {
				env.Violate("C03/resent-what-should-be-filled", "number %d (administrative, declined or never stored) was resent as 35=%s", pos, x.Type())
				break
			}
			orig, _ := wire.Scan(saved[pos])
			if x.Type() != orig.Type() {
				env.Violate("C03/identity", "number %d resent as 35=%s, stored as 35=%s", pos, x.Type(), orig.Type())
				break
			}
			if x.Str(122) != orig.Str(52) {
				env.Violate("C03/origsendingtime", "number %d: OrigSendingTime %q, original SendingTime %q", pos, x.Str(122), orig.Str(52))
				break
			}
			if !bytes.Equal(wire.BodyRegion(x.Raw), wire.BodyRegion(saved[pos])) {
				env.Violate("C03/body", "number %d: body bytes differ\n resent %q\n stored %q", pos, wire.BodyRegion(x.Raw), wire.BodyRegion(saved[pos]))
				break
			}
			pos++
			sawApp = true
			env.Stat("probe_message_resent")
		}
		if env.Failed() {
			break
		}
		if readFault {
			// the reply may stop anywhere; what was sent has been judged element by element above
			env.Stat("probe_reply_cut_short_by_read_error")
			continue
		}
		if b <= end && pos != end+1 {
			env.Violate("C03/coverage-end", "request %d..%d (last used %d): coverage ends at %d, must end at %d: %s", b, e, last, pos, end+1, summarize(r))
			break
		}
		if sawApp && sawFill {
			env.Nontrivial = true
		}
		env.State(fmt.Sprintf("persist=%v dict=%v store=%s empty=%v", !c.PersistOff, dict, c.Store, b > end))
	}
}
