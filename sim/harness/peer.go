package harness

import (
	"fmt"
	"strconv"
	"time"

	"github.com/quickfixgo/quickfix/verifsim/simnet"

	"verifsim/wire"
)

// Peer is the stub counterparty of single-engine runs: a small FIX speaker with its own codec,
// driven step by step by the driver goroutine. It never runs on a goroutine of its own.
type Peer struct {
	env  *Env
	eng  *Engine
	W    *simnet.World
	EP   *simnet.Endpoint // engine-side endpoint of the current connection, nil when none
	Conn int              // index of the current connection (1-based), 0 before the first
	OutSeq int            // next MsgSeqNum the peer will use
	InExp  int            // next MsgSeqNum the peer expects from the engine
	Recv   []RecvMsg      // every frame the engine wrote, in order
	Sent   []SentMsg
	idN    int
	// ChunkPlan, when set, splits every fed frame into pieces of these sizes (cyclic).
	ChunkPlan []int
	OnRecv func(r RecvMsg)
	rest   []byte
	CL     *ConnLog
	// Bytewise feeds one byte at a time and settles after each (set per connection once framing may
	// be damaged: a single feed could otherwise complete several frames at once, i.e. make more than
	// one source ready for the session's select, whose choice among ready cases is random).
	Bytewise bool
}

type RecvMsg struct {
	wire.Msg
	Conn int
	N    int // global event number
	At   time.Time
}

type SentMsg struct {
	wire.Msg
	Conn int
	N    int
	At   time.Time
	Opt  MsgOpt
}

func NewPeer(env *Env, w *simnet.World, eng *Engine) *Peer {
	return &Peer{env: env, eng: eng, W: w, OutSeq: 1, InExp: 1}
}

func (p *Peer) Connected() bool { return p.EP != nil && !p.EP.IsClosed() }

// Connect establishes a transport connection with the engine. For an acceptor the peer dials;
// for an initiator the peer waits (advancing time up to maxWait) for the engine's dial.
func (p *Peer) Connect(maxWait time.Duration) bool {
	p.rest = nil
	p.Bytewise = false
	if !p.eng.Cfg.Initiator {
		ep, err := p.W.DriverDial(p.eng.Cfg.Port)
		if err != nil {
			return false
		}
		p.EP = ep
		p.Conn++
		p.env.Rec("peer", "connect", strconv.Itoa(p.Conn), true)
		p.env.Settle()
		return true
	}
	deadline := time.Now().Add(maxWait)
	for {
		d := p.W.TakeDialled()
		// connections the engine has already given up on (its logon attempt timed out while nobody
		// answered) are not connections any more
		var live []*simnet.Endpoint
		for _, o := range d {
			if o.IsClosed() {
				continue
			}
			live = append(live, o)
		}
		d = live
		if len(d) > 0 {
			p.EP = d[len(d)-1]
			for _, o := range d[:len(d)-1] {
				o.FeedEOF(nil)
			}
			p.Conn++
			p.env.Rec("peer", "accepted", strconv.Itoa(p.Conn), true)
			p.env.Settle()
			p.Collect()
			return true
		}
		if !time.Now().Before(deadline) {
			return false
		}
		p.env.Advance(250 * time.Millisecond)
	}
}

// Drop closes the connection from the peer's side (EOF to the engine).
func (p *Peer) Drop() {
	if p.EP == nil {
		return
	}
	p.Collect()
	p.EP.FeedEOF(nil)
	p.env.Rec("peer", "drop", strconv.Itoa(p.Conn), true)
	p.env.Settle()
	p.Collect()
	p.EP = nil
}

// Collect takes what the engine wrote since the last call (recorded at write time by the
// connection log), and returns it as messages.
func (p *Peer) Collect() []RecvMsg {
	if p.EP == nil {
		return nil
	}
	p.EP.TakeOut() // the driver "receives" the bytes
	cr := p.CL.Of(p.EP)
	if cr == nil {
		return nil
	}
	ws, _ := cr.Snapshot()
	var out []RecvMsg
	for ; cr.cursor < len(ws); cr.cursor++ {
		w := ws[cr.cursor]
		buf := append(p.rest, w.Frame...)
		frames, rest := wire.SplitFrames(buf)
		p.rest = rest
		for _, f := range frames {
			m, err := wire.Scan(f)
			if err != nil {
				p.env.Violate("harness/unscannable-frame", "engine wrote a frame the independent scanner cannot split: %q (%v)", f, err)
				continue
			}
			if err := wire.CheckFrame(f); err != nil {
				p.env.Stat("byproduct_bad_envelope")
				p.env.Rec("peer", "bad-envelope", err.Error()+" "+string(f), true)
			}
			r := RecvMsg{Msg: m, Conn: p.Conn, At: w.At, N: w.N}
			p.Recv = append(p.Recv, r)
			if !m.PossDup() {
				if s := m.Seq(); s >= p.InExp {
					p.InExp = s + 1
				}
			}
			if m.Type() == "A" && m.Str(141) == "Y" {
				p.InExp = m.Seq() + 1
			}
			if p.OnRecv != nil {
				p.OnRecv(r)
			}
			out = append(out, r)
		}
	}
	return out
}

// MsgOpt are the knobs of one peer message; the zero value is an honest in-sequence message.
type MsgOpt struct {
	Seq        int  // 0: use and advance OutSeq; otherwise this exact number (OutSeq untouched unless Advance)
	Advance    bool // with explicit Seq: set OutSeq = Seq+1
	PossDup    bool
	NoOrigTime bool          // PossDup without OrigSendingTime
	OrigDelta  time.Duration // OrigSendingTime = SendingTime + OrigDelta (default -1s when PossDup)
	TimeDelta  time.Duration // SendingTime offset from the simulated now
	NoTime     bool
	BadTime    string // literal SendingTime
	Sender     *string
	Target     *string
	Begin      *string
	NoSeq      bool
	SeqLiteral string
	NoType     bool
	Extra      []wire.Field // extra header fields after 52/122
	SecPrecision bool
}

// Build makes a frame as the peer would send it.
func (p *Peer) Build(msgType string, body []wire.Field, o MsgOpt) ([]byte, int) {
	c := p.eng.Cfg
	begin := c.BeginString
	if o.Begin != nil {
		begin = *o.Begin
	}
	seq := o.Seq
	if seq == 0 {
		seq = p.OutSeq
		p.OutSeq++
	} else if o.Advance {
		p.OutSeq = seq + 1
	}
	var f []wire.Field
	if !o.NoType {
		f = append(f, wire.F(35, msgType))
	}
	sender, target := c.Target, c.Sender
	if o.Sender != nil {
		sender = *o.Sender
	}
	if o.Target != nil {
		target = *o.Target
	}
	if o.Sender == nil || *o.Sender != "\x00" {
		f = append(f, wire.F(49, sender))
	}
	if o.Target == nil || *o.Target != "\x00" {
		f = append(f, wire.F(56, target))
	}
	if o.SeqLiteral != "" {
		f = append(f, wire.F(34, o.SeqLiteral))
	} else if !o.NoSeq {
		f = append(f, wire.FI(34, seq))
	}
	if o.PossDup {
		f = append(f, wire.F(43, "Y"))
	}
	now := time.Now().Add(o.TimeDelta)
	stamp := wire.Stamp
	if c.BeginString < "FIX.4.2" || o.SecPrecision {
		stamp = wire.StampSec
	}
	if o.BadTime != "" {
		f = append(f, wire.F(52, o.BadTime))
	} else if !o.NoTime {
		f = append(f, wire.F(52, stamp(now)))
	}
	if o.PossDup && !o.NoOrigTime {
		d := o.OrigDelta
		if d == 0 {
			d = -time.Second
		}
		f = append(f, wire.F(122, stamp(now.Add(d))))
	}
	f = append(f, o.Extra...)
	f = append(f, body...)
	return wire.Encode(begin, f), seq
}

// Send builds and feeds one message, settles, and returns what the engine wrote in reaction.
func (p *Peer) Send(msgType string, body []wire.Field, o MsgOpt) []RecvMsg {
	b, _ := p.Build(msgType, body, o)
	return p.SendRaw(b, o)
}

func (p *Peer) SendRaw(b []byte, o MsgOpt) []RecvMsg {
	if p.EP == nil {
		return nil
	}
	m, _ := wire.Scan(b)
	s := SentMsg{Msg: m, Conn: p.Conn, At: time.Now(), Opt: o}
	s.N = p.env.Rec(fmt.Sprintf("peer>:%d", p.Conn), "peer>", string(b), true)
	p.Sent = append(p.Sent, s)
	if p.Bytewise {
		for i := range b {
			if p.EP.IsClosed() {
				break
			}
			p.EP.Feed(b[i : i+1])
			p.env.Settle()
		}
	} else if len(p.ChunkPlan) == 0 {
		p.EP.Feed(b)
	} else {
		i := 0
		for len(b) > 0 {
			n := p.ChunkPlan[i%len(p.ChunkPlan)]
			i++
			if n <= 0 {
				n = 1
			}
			if n > len(b) {
				n = len(b)
			}
			p.EP.Feed(b[:n])
			b = b[n:]
		}
	}
	p.env.Settle()
	return p.Collect()
}

func (p *Peer) NextID() string {
	p.idN++
	return fmt.Sprintf("p%d", p.idN)
}

// ---- honest repertoire ----

func (p *Peer) LogonBody(hb int, reset bool) []wire.Field {
	b := []wire.Field{wire.F(98, "0"), wire.FI(108, hb)}
	if reset {
		b = append(b, wire.F(141, "Y"))
	}
	if p.eng.Cfg.BeginString == "FIXT.1.1" {
		b = append(b, wire.F(1137, "9"))
	}
	return b
}

// AppBody returns the body of the harness's application message (35=D without a dictionary).
func AppBody(id string) []wire.Field {
	return []wire.Field{wire.F(11, "C"+id), wire.F(21, "1"), wire.F(55, "SYM"), wire.F(54, "1"), wire.F(38, "100"), wire.F(40, "1"), wire.F(58, id)}
}

// WaitFor advances simulated time in steps until pred is true or max elapsed; collects output.
func (p *Peer) WaitFor(max, step time.Duration, pred func() bool) bool {
	deadline := time.Now().Add(max)
	for {
		p.Collect()
		if pred() {
			return true
		}
		if !time.Now().Before(deadline) {
			return false
		}
		p.env.Advance(step)
	}
}

// LastOfType returns the last received message of the type among msgs.
func LastOfType(msgs []RecvMsg, t string) (RecvMsg, bool) {
	for i := len(msgs) - 1; i >= 0; i-- {
		if msgs[i].Type() == t {
			return msgs[i], true
		}
	}
	return RecvMsg{}, false
}

func CountType(msgs []RecvMsg, t string) int {
	n := 0
	for _, m := range msgs {
		if m.Type() == t {
			n++
		}
	}
	return n
}
