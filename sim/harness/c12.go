package harness

import (
	"bufio"
	"bytes"
	"errors"
	"fmt"
	"io"
	"strings"
	"time"

	"github.com/quickfixgo/quickfix"

	"verifsim/wire"
)

// C12 — stream framing is independent of how the bytes arrive.
//
// What a Reader returns per call is the transport's nondeterminism. The same byte stream is
// delivered under several schedules (chunk sizes from 1 byte to more than the parse buffer, empty
// reads, an error together with the last bytes, EOF or an error after any byte) to the real parser;
// the frames and the terminal error must not depend on the schedule (metamorphic oracle), and for
// streams built from well-formed messages and marker-free separators they must be exactly those
// messages (model oracle). A second configuration does the same through a logged-on engine's
// readLoop behind the simulated transport and observes the frames at Log.OnIncoming.

func init() {
	Register(&Property{ID: "C12", Run: runC12,
		Rule: "a byte stream of 1-12 well-formed messages (20 B .. 20 KB, also larger than the 4096-byte buffer and than twice it) separated by marker-free bytes, optionally damaged (fake 8=, bad/huge/zero/negative lengths, missing 10=, truncation), delivered under 3-5 schedules (1-byte .. >buffer chunks, cuts inside tags/lengths/checksums, (0,nil) reads, (n>0,err), terminal EOF or error after any byte), raw and through bufio; plus the engine configuration (real readLoop behind simnet chunking, frames at OnIncoming); in the engine configuration a header with an unusable BodyLength (the parser on the whole stream is the reference for what the read loop must hand on). Non-trivial: the stream yielded at least one frame under at least two different schedules and crossed a buffer boundary or was damaged; distinct: canonical trace hash"})
}

type schedReader struct {
	data   []byte
	chunks []int // sizes; 0 = an empty read (0,nil)
	i      int
	pos    int
	final  error // returned once the data is exhausted
	withLast bool // deliver final together with the last bytes
}

func (r *schedReader) Read(p []byte) (int, error) {
	if r.pos >= len(r.data) {
		return 0, r.final
	}
	n := 1
	if len(r.chunks) > 0 {
		n = r.chunks[r.i%len(r.chunks)]
		r.i++
	}
	if n == 0 {
		return 0, nil
	}
	if n > len(p) {
		n = len(p)
	}
	if n > len(r.data)-r.pos {
		n = len(r.data) - r.pos
	}
	copy(p, r.data[r.pos:r.pos+n])
	r.pos += n
	if r.pos >= len(r.data) && r.withLast {
		return n, r.final
	}
	return n, nil
}

func frameAll(rd io.Reader) (frames [][]byte, term string) {
	frames, _, term = frameAllHeld(rd)
	return
}

// frameAllHeld also keeps every frame exactly as handed out (no copy), the way a consumer that holds
// on to the buffers would, so that a frame changing under the consumer's feet becomes visible.
func frameAllHeld(rd io.Reader) (frames, held [][]byte, term string) {
	p := quickfix.NewVerifParser(rd)
	for i := 0; i < 100000; i++ {
		f, err := p.ReadMessage()
		if err != nil {
			return frames, held, err.Error()
		}
		frames = append(frames, append([]byte(nil), f...))
		held = append(held, f)
	}
	return frames, held, "harness: too many frames"
}

func c12Message(env *Env, seq int) []byte {
	ch := env.Ch
	var size int
	switch ch.Weighted("size", []int{6, 2, 2, 1, 1}) {
	case 0:
		size = ch.Choose("small", 60)
	case 1:
		size = 3900 + ch.Choose("nearbuf", 400)
	case 2:
		size = 8000 + ch.Choose("near2buf", 400)
	case 3:
		size = 20000 + ch.Choose("big", 100)
	case 4:
		size = 4096 - 90 + ch.Choose("exact", 20)
	}
	pay := make([]byte, size)
	alphabet := "abcdefghijklmnopqrstuvwxyz0123456789=8 9.,:-|"
	x := mix(env.Seed, uint64(seq), uint64(size))
	for i := range pay {
		x = x*6364136223846793005 + 1442695040888963407
		pay[i] = alphabet[(x>>33)%uint64(len(alphabet))]
	}
	return wire.Encode("FIX.4.2", []wire.Field{wire.F(35, "0"), wire.F(49, "PEER"), wire.F(56, "ENG"), wire.FI(34, seq), wire.F(52, "20000101-00:00:00"), wire.F(58, string(pay))})
}

func c12Separator(env *Env) []byte {
	ch := env.Ch
	n := ch.Choose("seplen", 12)
	if n == 0 {
		return nil
	}
	alphabet := "x\x0110=9= \n\x00y"
	b := make([]byte, n)
	for i := range b {
		b[i] = alphabet[ch.Choose("sepbyte", len(alphabet))]
	}
	// must not contain the BeginString marker, also not together with the next message's first byte
	s := strings.ReplaceAll(string(b), "8=", "x=")
	s = strings.TrimSuffix(s, "8")
	return []byte(s)
}

func c12Schedule(env *Env, total int) *schedReader {
	ch := env.Ch
	r := &schedReader{}
	switch ch.Weighted("sched", []int{2, 3, 3, 2, 2}) {
	case 0:
		r.chunks = []int{1}
	case 1:
		k := 1 + ch.Choose("nchunks", 5)
		for i := 0; i < k; i++ {
			r.chunks = append(r.chunks, []int{1, 2, 3, 5, 7, 13, 64, 100, 0}[ch.Choose("chunk", 9)])
		}
	case 2:
		r.chunks = []int{[]int{4095, 4096, 4097, 8192, 5000, 9000}[ch.Choose("bufchunk", 6)]}
	case 3:
		r.chunks = []int{1 + ch.Choose("mid", 600)}
	case 4:
		r.chunks = []int{total + 1}
	}
	allZero := true
	for _, c := range r.chunks {
		if c != 0 {
			allZero = false
		}
	}
	if allZero {
		r.chunks = append(r.chunks, 1)
	}
	return r
}

func runC12(env *Env, tier string) {
	ch := env.Ch
	if ch.Chance("engineconfig", 1, 5) {
		runC12Engine(env)
		return
	}
	// ---- build the stream ----
	var stream []byte
	var msgs [][]byte
	n := 1 + ch.Choose("nmsgs", 12)
	for i := 0; i < n; i++ {
		stream = append(stream, c12Separator(env)...)
		m := c12Message(env, i+1)
		msgs = append(msgs, m)
		stream = append(stream, m...)
	}
	stream = append(stream, c12Separator(env)...)
	damaged := false
	if ch.Chance("damage", 1, 2) {
		damaged = true
		for k := 1 + ch.Choose("ndamage", 3); k > 0; k-- {
			pos := ch.Choose("damagepos", len(stream))
			switch ch.Choose("damagekind", 7) {
			case 0: // fake marker
				stream = append(stream[:pos], append([]byte("8="), stream[pos:]...)...)
			case 1: // length rewritten
				if i := bytes.Index(stream[pos:], []byte("\x019=")); i >= 0 {
					at := pos + i + 3
					end := at + bytes.IndexByte(stream[at:], 1)
					repl := []string{"0", "-5", "99999999", "", "12x", "1"}[ch.Choose("lenrepl", 6)]
					stream = append(stream[:at], append([]byte(repl), stream[end:]...)...)
				}
			case 2: // checksum tag destroyed
				if i := bytes.Index(stream[pos:], []byte("\x0110=")); i >= 0 {
					stream[pos+i+1] = 'x'
				}
			case 3: // truncate
				stream = stream[:pos]
			case 4: // delete a byte
				stream = append(stream[:pos], stream[pos+1:]...)
			case 5: // insert SOH
				stream = append(stream[:pos], append([]byte{1}, stream[pos:]...)...)
			case 6: // duplicate a stretch
				e := pos + 1 + ch.Choose("duplen", 40)
				if e > len(stream) {
					e = len(stream)
				}
				stream = append(stream[:e], append(append([]byte(nil), stream[pos:e]...), stream[e:]...)...)
			}
			if len(stream) == 0 {
				stream = []byte("x")
			}
		}
		env.Stat("fault_stream_damaged")
	}
	var final error = io.EOF
	if ch.Chance("finalerr", 1, 3) {
		final = errors.New("connection reset by peer")
		env.Stat("fault_read_error")
	}
	// ---- reference: everything in one read ----
	ref, refTerm := frameAll(&schedReader{data: stream, chunks: []int{len(stream) + 1}, final: final})
	if !damaged {
		if len(ref) != len(msgs) {
			env.Violate("C12/model", "stream of %d well-formed messages framed into %d frames (all at once)", len(msgs), len(ref))
			return
		}
		for i := range ref {
			if !bytes.Equal(ref[i], msgs[i]) {
				env.Violate("C12/model", "frame %d differs from message %d: %q vs %q", i, i, clip(ref[i]), clip(msgs[i]))
				return
			}
		}
	}
	crossed := len(stream) > 4096
	schedules := 2 + ch.Choose("nsched", 3)
	differentSchedules := 0
	for k := 0; k < schedules; k++ {
		r := c12Schedule(env, len(stream))
		r.data, r.final = stream, final
		r.withLast = ch.Chance("errwithlast", 1, 4)
		var rd io.Reader = r
		viaBufio := ch.Chance("bufio", 1, 2)
		if viaBufio {
			rd = bufio.NewReader(r)
		}
		got, held, term := frameAllHeld(rd)
		for i := range got {
			if !bytes.Equal(got[i], held[i]) {
				env.Violate("C12/frame-changes-after-hand-over", "frame %d as handed out changed while later frames were read (schedule chunks=%v): now %q, was %q", i, r.chunks, clip(held[i]), clip(got[i]))
				return
			}
		}
		desc := fmt.Sprintf("chunks=%v errWithLast=%v bufio=%v", r.chunks, r.withLast, viaBufio)
		env.Note("stream %d bytes, %d messages, damaged=%v, schedule %s -> %d frames, %s", len(stream), len(msgs), damaged, desc, len(got), term)
		if len(got) != len(ref) {
			env.Violate("C12/chunking-changes-frames", "%d frames with everything in one read, %d frames with %s", len(ref), len(got), desc)
			return
		}
		for i := range got {
			if !bytes.Equal(got[i], ref[i]) {
				env.Violate("C12/chunking-changes-frames", "frame %d differs under %s: %q vs %q", i, desc, clip(got[i]), clip(ref[i]))
				return
			}
		}
		if term != refTerm {
			env.Violate("C12/chunking-changes-error", "terminal error %q with everything in one read, %q with %s", refTerm, term, desc)
			return
		}
		if len(r.chunks) != 1 || r.chunks[0] <= len(stream) {
			differentSchedules++
		}
		env.Stat("probe_schedule_compared")
	}
	env.Nontrivial = len(ref) > 0 && differentSchedules >= 1 && (crossed || damaged)
	if crossed {
		env.Stat("probe_stream_larger_than_buffer")
	}
	env.State(fmt.Sprintf("damaged=%v crossed=%v frames>0=%v", damaged, crossed, len(ref) > 0))
}

func clip(b []byte) []byte {
	if len(b) > 120 {
		return append(append([]byte(nil), b[:60]...), b[len(b)-60:]...)
	}
	return b
}

// runC12Engine: the real readLoop in a logged-on engine, frames observed at Log.OnIncoming.
func runC12Engine(env *Env) {
	ch := env.Ch
	c := DrawBaseCfg(env)
	c.BeginString = "FIX.4.2"
	c.HeartBtInt = 30
	s := StartSut(env, c)
	p := s.P
	a := NewAdv(s, 30, AdvOpts{HonestLogon: true})
	var sent [][]byte
	var stream []byte
	inBefore := 0
	if !c.Initiator && ch.Chance("pipelined", 1, 2) {
		// the counterparty pipelines its first messages right behind the Logon, so that they can share
		// a read with it (first-message hand-over in the acceptor)
		if !p.Connect(time.Second) {
			env.Fatalf("connect failed")
		}
		lg, _ := p.Build("A", p.LogonBody(30, false), MsgOpt{})
		sent = append(sent, lg)
		stream = append(stream, lg...)
		env.Stat("probe_pipelined_behind_logon")
	} else {
		if !a.ensureSession() {
			env.Fatalf("logon failed")
		}
		inBefore = len(s.E.LF.In)
	}
	n := 1 + ch.Choose("nmsgs", 8)
	for i := 0; i < n; i++ {
		stream = append(stream, c12Separator(env)...)
		m := c12Message(env, p.OutSeq)
		p.OutSeq++
		sent = append(sent, m)
		stream = append(stream, m...)
	}
	// In a share of the runs one header in the stream is damaged (unusable BodyLength). The reference is the
	// parser itself on the whole stream in one read: the read loop must hand on exactly those frames,
	// however the bytes arrive (it ends at the first parser error).
	if len(sent) >= 2 && ch.Chance("enginedamage", 1, 3) {
		k := 1 + ch.Choose("damagedmsg", len(sent)-1)
		off := 0
		for j := 0; j < len(stream); j++ {
			if bytes.HasPrefix(stream[j:], sent[k]) {
				off = j
			}
		}
		if i := bytes.Index(stream[off:], []byte("\x019=")); i >= 0 {
			at := off + i + 3
			end := at + bytes.IndexByte(stream[at:], 1)
			repl := []string{"0", "-5", "", "12x", "x"}[ch.Choose("lenrepl", 5)]
			stream = append(append(append([]byte(nil), stream[:at]...), repl...), stream[end:]...)
			ref, _ := frameAll(bytes.NewReader(stream))
			sent = ref
			env.Stat("fault_damaged_header_through_read_loop")
		}
	}
	r := c12Schedule(env, len(stream))
	env.Note("engine configuration: %d messages, %d bytes, chunks %v", n, len(stream), r.chunks)
	pos, i := 0, 0
	for pos < len(stream) {
		k := r.chunks[i%len(r.chunks)]
		i++
		if k == 0 {
			continue
		}
		if k > len(stream)-pos {
			k = len(stream) - pos
		}
		if p.EP.IsClosed() {
			break
		}
		p.EP.Feed(stream[pos : pos+k])
		pos += k
		if ch.Chance("settlebetween", 1, 3) {
			env.Settle()
		}
	}
	env.Settle()
	env.Advance(10 * time.Millisecond)
	got := s.E.LF.In[inBefore:]
	if len(got) != len(sent) {
		env.Violate("C12/engine-frames", "engine's readLoop framed %d messages out of %d sent (chunks %v)", len(got), len(sent), r.chunks)
		return
	}
	for k := range got {
		if !bytes.Equal(got[k], sent[k]) {
			env.Violate("C12/engine-frames", "frame %d at OnIncoming differs from what was sent (chunks %v): %q vs %q", k, r.chunks, clip(got[k]), clip(sent[k]))
			return
		}
	}
	env.Stat("probe_engine_configuration")
	env.Nontrivial = len(stream) > 200
	env.State("engine-config")
}
