package harness

import (
	"math/big"
	"fmt"
	"strings"
	"time"

	"verifsim/wire"
)

// C06 — messages failing session-level checks never reach the application.
//
// The stub peer emits otherwise-valid messages in which the chooser plants one or more defects in
// flight. For a message with defect set D the oracle demands (1) no delivery and (2) the reaction
// FIX mandates for ONE OF the defects in D — it does not encode the implementation's precedence.

func init() {
	Register(&Property{ID: "C06", Run: runC06,
		Rule: "one real engine logged on (normal, recovering, test-request-pending); 6-40 peer messages of types D,0,1,2,4,5 and Logons on fresh connections, each with 0-3 planted header defects (BeginString, CompIDs wrong/missing/empty/swapped, SendingTime missing/garbled/off by MaxLatency±δ, MsgSeqNum missing/garbled/too low with and without PossDup, OrigSendingTime missing/garbled/later); CheckLatency on/off, MaxLatency varied, all BeginStrings, both roles; body field without a value; ValidateFieldsOutOfOrder=N in a fifth of the dictionary-less runs; identity fields under tag numbers that overflow an int, MsgSeqNum 2^64+n. Non-trivial: at least two defective messages and one clean control were judged; distinct: canonical trace hash"})
}

type c06Defect struct {
	name  string
	class string // "logout", "reject9", "reject10", "plain", "drop"
	field int    // for plain rejects
}

func runC06(env *Env, tier string) {
	ch := env.Ch
	c := DrawBaseCfg(env)
	hb := 30
	c.HeartBtInt = hb
	maxLat := []int{120, 5, 30, 600}[ch.Choose("maxlatency", 4)]
	if maxLat != 120 {
		c.MaxLatency = maxLat
	}
	if ch.Chance("checklatencyoff", 1, 5) {
		c.CheckLatencyOff = true
	}
	if c.DataDict == "" && c.AppDD == "" && ch.Chance("fieldorderoff", 1, 5) {
		// one of the two dictionary-less field checks is configured off; the other one (empty values) stays
		if c.Extra == nil {
			c.Extra = map[string]string{}
		}
		c.Extra["ValidateFieldsOutOfOrder"] = "N"
		env.Stat("probe_field_order_check_off")
	}
	s := StartSut(env, c)
	p := s.P
	a := NewAdv(s, hb, AdvOpts{HonestLogon: true})
	pre42 := c.BeginString < "FIX.4.2"
	judgedDefective, judgedClean := 0, 0
	dropAfter := false
	earlyMax := 0 // highest early (kept) number sent while a gap is open; 0: no gap open

	steps := 6 + ch.Choose("steps", 35)
	for i := 0; i < steps && !env.Failed(); i++ {
		if dropAfter {
			dropAfter = false
			if p.Connected() {
				p.Drop()
			}
		}
		fresh := !p.Connected()
		if fresh && ch.Chance("defectivelogon", 1, 3) {
			// ---- a Logon with defects on a fresh connection must not establish the session ----
			if s.E.stopped {
				break
			}
			p.EP = nil
			if !p.Connect(20 * time.Second) {
				break
			}
			o, defects, _ := plantDefects(env, c, 1+ch.Choose("ndef", 2), false, s, pre42, "A")
			if len(defects) == 0 {
				p.Drop()
				continue
			}
			appBefore := len(s.E.App.Snapshot())
			o.Seq = p.OutSeq
			b, _ := p.Build("A", p.LogonBody(hb, false), o)
			env.Note("fresh-connection Logon with defects %v", names(defects))
			p.SendRaw(b, o)
			for _, ac := range s.E.App.Snapshot()[appBefore:] {
				if ac.Kind == "OnLogon" && !onlyDrop(defects) {
					env.Violate("C06/logon-established", "Logon with defects %v established the session (OnLogon)", names(defects))
				}
			}
			judgedDefective++
			env.Stat("probe_defective_logon")
			// whatever happened, start over on a clean connection
			if p.Connected() {
				p.Drop()
			}
			continue
		}
		if !a.ensureSession() {
			break
		}
		// make sure the handshake left the session logged on and in sequence
		if !p.Connected() {
			continue
		}
		T := a.engT()
		if earlyMax >= T {
			// a recovery left open by an earlier iteration: close it honestly (gap fill over everything)
			p.Send("4", []wire.Field{wire.F(123, "Y"), wire.FI(36, earlyMax+1)}, MsgOpt{Seq: T, PossDup: true})
			if !p.Connected() {
				continue
			}
			T = a.engT()
			if T != earlyMax+1 {
				earlyMax = 0
				p.Drop() // could not resynchronise (the engine is logging out); start over
				continue
			}
		}
		earlyMax = 0
		if p.OutSeq != T {
			// previous defects left the peer's counter elsewhere; resynchronise honestly
			p.OutSeq = T
		}
		// ---- session state to plant the defect in ----
		recovering, pending := false, false
		switch ch.Weighted("state", []int{6, 2, 2}) {
		case 1:
			p.OutSeq += 1 + ch.Choose("gap", 3)
			earlyMax = p.OutSeq
			p.Send("D", AppBody(p.NextID()), MsgOpt{})
			recovering = true
			env.Stat("probe_state_recovering")
		case 2:
			env.Advance(time.Duration(float64(hb)*1.3) * time.Second)
			r := p.Collect()
			if _, ok := LastOfType(r, "1"); ok {
				pending = true
				env.Stat("probe_state_testrequest_pending")
			}
		}
		if !p.Connected() {
			continue
		}
		T = a.engT()
		mt := []string{"D", "0", "1", "2", "4g", "4r", "5", "3"}[ch.Weighted("type", []int{6, 2, 2, 1, 1, 1, 1, 2})]
		nd := ch.Weighted("ndef", []int{2, 6, 2, 1})
		seqOK := mt == "D" || mt == "0" || mt == "1" || mt == "4g" || mt == "3"
		o, defects, seqDefect := plantDefects(env, c, nd, seqOK, s, pre42, mt)
		if recovering {
			// "SendingTime ... (when checking is enabled and no replay is in progress)"
			var kept []c06Defect
			for _, d := range defects {
				if !strings.HasPrefix(d.name, "time-") {
					kept = append(kept, d)
				}
			}
			if len(kept) != len(defects) {
				continue // not a defect in this state; nothing to judge
			}
		}
		if !seqDefect {
			o.Seq = T
			if recovering || ch.Chance("possdup-in-sequence", 1, 4) {
				// the expected number arriving as a retransmission (PossDupFlag=Y with a consistent
				// OrigSendingTime) is not a defect by itself; every other check still applies to it
				o.PossDup = true
				env.Stat("probe_possdup_in_sequence")
			}
		}
		var body []wire.Field
		typ := mt
		id := p.NextID()
		switch mt {
		case "D":
			body = AppBody(id)
			if ch.Chance("bodyvalueempty", 1, 8) {
				// a body field without a value: "Tag specified without a value", a plain Reject naming it
				for k := range body {
					if body[k].Tag == 55 {
						body[k].Val = ""
					}
				}
				defects = append(defects, c06Defect{"body-value-empty", "plain", 55})
				env.Stat("probe_body_field_without_value")
			}
		case "1":
			body = []wire.Field{wire.F(112, id)}
		case "2":
			body = []wire.Field{wire.FI(7, 1), wire.FI(16, 0)}
		case "4g":
			typ = "4"
			body = []wire.Field{wire.F(123, "Y"), wire.FI(36, T+1)}
		case "4r":
			typ = "4"
			body = []wire.Field{wire.FI(36, T+2)}
		case "3":
			body = []wire.Field{wire.FI(45, 1), wire.F(58, "peer rejects something")}
		}
		appBefore := len(s.E.App.Snapshot())
		b, _ := p.Build(typ, body, o)
		env.Note("%s seq=%d defects=%v recovering=%v pending=%v (T=%d)", mt, o.Seq, names(defects), recovering, pending, T)
		r := p.SendRaw(b, o)
		Tafter := a.engT()
		if _, lo := LastOfType(r, "5"); lo && p.Connected() {
			// the engine logged out: the session is no longer logged on; the next message gets a fresh one
			defer0 := p
			_ = defer0
			dropAfter = true
		}
		// callbacks that carry THIS message (draining of kept messages may add other deliveries)
		var cb []AppCall
		for _, ac := range s.E.App.Snapshot()[appBefore:] {
			if (ac.Kind == "FromApp" || ac.Kind == "FromAdmin") && ac.Type == typ {
				if mt == "D" && ac.ID != id {
					continue
				}
				if mt == "1" || mt == "0" || mt == "2" || mt == "4g" || mt == "4r" || mt == "5" || mt == "3" {
					if !recovering || len(defects) > 0 {
						// identity of an administrative message: its type within this processing window
					}
				}
				cb = append(cb, ac)
			}
		}
		if len(defects) == 0 {
			// clean control: delivered exactly once (normal state only; in recovery stash draining may add deliveries)
			if !recovering {
				n := 0
				for _, ac := range cb {
					if (mt == "D") == (ac.Kind == "FromApp") {
						n++
					}
				}
				if n != 1 {
					env.Violate("C06/clean-not-delivered", "clean in-sequence %s message was handed over %d times; reaction %s", mt, n, summarize(r))
				}
				judgedClean++
			}
			if !seqDefect && !recovering && mt != "4r" && mt != "4g" && mt != "5" && mt != "2" {
				p.OutSeq = T + 1
			} else {
				p.OutSeq = a.engT()
			}
			continue
		}
		judgedDefective++
		for _, d := range defects {
			env.Stat("fault_defect_" + d.name)
		}
		// (1) never delivered
		if len(cb) != 0 {
			env.Violate("C06/delivered", "%s message with defects %v reached %s (seq %d)", mt, names(defects), cb[0].Kind, cb[0].Seq)
			continue
		}
		if onlyDrop(defects) {
			continue
		}
		// (2) the reaction mandated for one of the defects
		var sig []string
		var rej *RecvMsg
		for k := range r {
			switch r[k].Type() {
			case "3":
				sig = append(sig, "3")
				rej = &r[k]
			case "5":
				sig = append(sig, "5")
			case "0", "1":
				// heartbeat/test request cannot be a reaction here (no time passes); treat as processing
				sig = append(sig, "x"+r[k].Type())
			default:
				sig = append(sig, "x"+r[k].Type())
			}
		}
		sg := strings.Join(sig, ",")
		ok := false
		for _, d := range defects {
			switch d.class {
			case "logout":
				ok = ok || sg == "5"
			case "reject9", "reject10":
				want := map[string]string{"reject9": "9", "reject10": "10"}[d.class]
				if sg == "3,5" && (pre42 || rej.Str(373) == want) {
					ok = true
				}
			case "drop":
				ok = ok || sg == ""
			case "plain":
				if sg == "3" {
					if pre42 {
						ok = ok || strings.Contains(rej.Str(58), fmt.Sprintf("(%d)", d.field))
					} else {
						ok = ok || rej.Str(371) == fmt.Sprint(d.field)
					}
				}
			}
		}
		if !ok {
			env.Violate("C06/reaction", "%s message with defects %v: reaction %s is not the one mandated for any of them", mt, names(defects), summarize(r))
			continue
		}
		if strings.HasSuffix(sg, "5") && Tafter != T {
			env.Violate("C06/advanced", "defective message answered with a Logout advanced the expected number from %d to %d", T, Tafter)
		}
		// (3) rejects quote the offending MsgSeqNum and reverse the routing fields
		if rej != nil {
			m, _ := wire.Scan(b)
			if n, okn := m.Int(34); okn {
				if rej.IntOr(45, -1) != n {
					env.Violate("C06/reject-refseqnum", "Reject quotes 45=%s for offending MsgSeqNum %d", rej.Str(45), n)
				}
			}
			for _, pr := range [][2]int{{50, 57}, {57, 50}, {142, 143}, {143, 142}, {115, 128}, {128, 115}} {
				if v, has := m.Get(pr[0]); has && v != "" && rej.Str(pr[1]) != v {
					env.Violate("C06/reject-routing", "offender carried %d=%s, Reject carries %d=%q", pr[0], v, pr[1], rej.Str(pr[1]))
				}
			}
			if m.Str(49) == c.Target && m.Str(56) == c.Sender {
				if rej.Str(49) != c.Sender || rej.Str(56) != c.Target {
					env.Violate("C06/reject-routing", "Reject CompIDs 49=%s 56=%s are not the offender's reversed", rej.Str(49), rej.Str(56))
				}
			}
			env.Stat("probe_reject_checked")
		}
		p.OutSeq = a.engT()
	}
	env.Nontrivial = judgedDefective >= 2 && judgedClean >= 1
}

func names(d []c06Defect) []string {
	var n []string
	for _, x := range d {
		n = append(n, x.name)
	}
	return n
}

func onlyDrop(d []c06Defect) bool {
	for _, x := range d {
		if x.class != "drop" {
			return false
		}
	}
	return true
}

// plantDefects draws n distinct defects and returns the message options carrying them.
func plantDefects(env *Env, c EngineCfg, n int, seqAllowed bool, s *Sut, pre42 bool, mt string) (MsgOpt, []c06Defect, bool) {
	ch := env.Ch
	var o MsgOpt
	var ds []c06Defect
	seqDefect := false
	used := map[string]bool{}
	T := 1
	if st := s.E.Store(); st != nil {
		T = st.inner.NextTargetMsgSeqNum()
	}
	maxLat := 120 * time.Second
	if c.MaxLatency > 0 {
		maxLat = time.Duration(c.MaxLatency) * time.Second
	}
	// routing extras (no defect): sub/location ids to exercise reverse routing
	if ch.Chance("routingextras", 1, 3) {
		o.Extra = append(o.Extra, wire.F(50, "SUBP"), wire.F(57, "SUBE"))
		if c.BeginString != "FIX.4.0" && ch.Chance("locids", 1, 2) {
			o.Extra = append(o.Extra, wire.F(142, "LOCP"), wire.F(143, "LOCE"))
		}
	}
	for len(ds) < n {
		group := ch.Weighted("defgroup", []int{3, 5, 5, 4})
		switch group {
		case 0: // BeginString
			if used["begin"] {
				n--
				continue
			}
			used["begin"] = true
			other := "FIX.4.3"
			if c.BeginString == "FIX.4.3" {
				other = "FIX.4.4"
			}
			o.Begin = &other
			ds = append(ds, c06Defect{"begin-wrong", "logout", 8})
		case 1: // CompIDs
			if used["comp"] {
				n--
				continue
			}
			used["comp"] = true
			k := ch.Choose("compdefect", 9)
			str := func(v string) *string { return &v }
			switch k {
			case 0:
				o.Sender = str("INTRUDER")
				ds = append(ds, c06Defect{"sender-wrong", "reject9", 49})
			case 1:
				o.Target = str("SOMEONE")
				ds = append(ds, c06Defect{"target-wrong", "reject9", 56})
			case 2:
				o.Sender, o.Target = str(c.Sender), str(c.Target)
				ds = append(ds, c06Defect{"compids-swapped", "reject9", 49})
			case 3:
				o.Sender = str("\x00")
				ds = append(ds, c06Defect{"sender-missing", "plain", 49})
			case 4:
				o.Target = str("\x00")
				ds = append(ds, c06Defect{"target-missing", "plain", 56})
			case 5:
				o.Sender = str("")
				ds = append(ds, c06Defect{"sender-empty", "plain", 49})
			case 6:
				o.Target = str("")
				ds = append(ds, c06Defect{"target-empty", "plain", 56})
			case 7, 8:
				// the field is absent; a field whose tag text is 2^64 + that tag carries the value. Such a
				// message is unparsable (dropped) or lacks the field - it is not a message WITH the field.
				tag, val := 49, c.Target
				if k == 8 {
					tag, val = 56, c.Sender
					o.Target = str("\x00")
				} else {
					o.Sender = str("\x00")
				}
				alias := new(big.Int).Add(new(big.Int).Lsh(big.NewInt(1), 64), big.NewInt(int64(tag)))
				o.Extra = append(o.Extra, wire.Field{RawTag: alias.String(), Val: val})
				ds = append(ds, c06Defect{"compid-under-overflowing-tag", "plain", tag}, c06Defect{"compid-under-overflowing-tag", "drop", tag})
			}
		case 2: // SendingTime
			if used["time"] {
				n--
				continue
			}
			used["time"] = true
			k := ch.Choose("timedefect", 4)
			if c.CheckLatencyOff {
				// with checking off none of these is a defect
				n--
				continue
			}
			delta := []time.Duration{time.Second, 10 * time.Second, 1000 * time.Second}[ch.Choose("timedelta", 3)]
			switch k {
			case 0:
				o.TimeDelta = -(maxLat + delta)
				ds = append(ds, c06Defect{"time-too-old", "reject10", 52})
			case 1:
				o.TimeDelta = maxLat + delta
				ds = append(ds, c06Defect{"time-in-future", "reject10", 52})
			case 2:
				o.NoTime = true
				ds = append(ds, c06Defect{"time-missing", "plain", 52})
			case 3:
				o.BadTime = []string{"garbage", "20000101", "2000-01-01 00:00:00", ""}[ch.Choose("badtime", 4)]
				if o.BadTime == "" {
					o.BadTime = "x"
				}
				ds = append(ds, c06Defect{"time-garbled", "plain", 52})
			}
		case 3: // MsgSeqNum
			if used["seq"] || !seqAllowed {
				n--
				continue
			}
			used["seq"] = true
			seqDefect = true
			k := ch.Choose("seqdefect", 6)
			low := 1
			if T > 2 {
				low = 1 + ch.Choose("lowseq", T-1)
			}
			switch {
			case k == 0:
				o.NoSeq = true
				ds = append(ds, c06Defect{"seq-missing", "plain", 34})
			case k == 1:
				o.SeqLiteral = []string{"abc", "1x", "--1", new(big.Int).Add(new(big.Int).Lsh(big.NewInt(1), 64), big.NewInt(int64(T))).String()}[ch.Choose("badseq", 4)]
				ds = append(ds, c06Defect{"seq-garbled", "plain", 34})
			case T <= 1:
				// nothing is "too low" yet
				seqDefect = false
				used["seq"] = false
				n--
				continue
			case k == 2:
				o.Seq = low
				ds = append(ds, c06Defect{"seq-low-no-possdup", "logout", 34})
			case k == 3:
				o.Seq, o.PossDup, o.NoOrigTime = low, true, true
				ds = append(ds, c06Defect{"origtime-missing", "plain", 122})
			case k == 4:
				o.Seq, o.PossDup, o.OrigDelta = low, true, 30*time.Second
				ds = append(ds, c06Defect{"origtime-later", "reject10", 122})
			case k == 5:
				o.Seq, o.PossDup, o.NoOrigTime = low, true, true
				o.Extra = append(o.Extra, wire.F(122, "notatime"))
				ds = append(ds, c06Defect{"origtime-garbled", "plain", 122})
			}
		}
	}
	_ = mt
	return o, ds, seqDefect
}
