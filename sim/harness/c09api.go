package harness

import (
	"bytes"
	"fmt"
	"sync"

	"github.com/quickfixgo/quickfix"
	"github.com/quickfixgo/quickfix/datadictionary"
)

// The API half of C09 as far as it rides along with the simulation for free: every corrupted frame the
// network fault produces (and some truncations of it) is also handed to the public parsing API directly, with
// and without dictionaries, and the result is read through the typed accessors. These calls involve no
// schedule, clock or fault of their own; the only oracle is "returns a value or an error".

var (
	c09DictOnce sync.Once
	c09Dicts    map[string]*datadictionary.DataDictionary
)

func c09LoadDicts() {
	c09DictOnce.Do(func() {
		c09Dicts = map[string]*datadictionary.DataDictionary{}
		for _, n := range []string{"FIX42", "FIX44", "FIXT11", "FIX50SP2"} {
			if d, err := datadictionary.Parse("/repo/spec/" + n + ".xml"); err == nil {
				c09Dicts[n] = d
			}
		}
	})
}

var c09Groups = []struct {
	count quickfix.Tag
	elems []quickfix.Tag
}{
	{268, []quickfix.Tag{269, 270, 271}},
	{267, []quickfix.Tag{269}},
	{146, []quickfix.Tag{55, 65}},
	{453, []quickfix.Tag{448, 447, 452}},
	{78, []quickfix.Tag{79, 80}},
	{555, []quickfix.Tag{600, 624}},
}

// c09APIProbe parses b (and prefixes of it) and reads the result; a panic is reported as a violation.
func c09APIProbe(env *Env, b []byte, variant int) {
	c09LoadDicts()
	inputs := [][]byte{b}
	// truncations: at an arbitrary byte, and after the first 1, 2, 3 fields
	if len(b) > 2 {
		inputs = append(inputs, b[:1+variant%(len(b)-1)])
	}
	n := 0
	for i, c := range b {
		if c == 1 {
			n++
			if n <= 3 {
				inputs = append(inputs, b[:i+1])
			}
		}
	}
	for _, in := range inputs {
		for mode := 0; mode < 3; mode++ {
			func() {
				defer func() {
					if r := recover(); r != nil {
						env.Violate("C09/api-panic", "parsing/reading %q (mode %d) panicked: %v", clip(in), mode, r)
					}
				}()
				msg := quickfix.NewMessage()
				var err error
				buf := bytes.NewBuffer(append([]byte(nil), in...))
				switch mode {
				case 0:
					err = quickfix.ParseMessage(msg, buf)
				case 1:
					err = quickfix.ParseMessageWithDataDictionary(msg, buf, c09Dicts["FIX44"], c09Dicts["FIX44"])
				case 2:
					err = quickfix.ParseMessageWithDataDictionary(msg, buf, c09Dicts["FIXT11"], c09Dicts["FIX50SP2"])
				}
				env.Stat("probe_api_parse")
				if err != nil {
					return
				}
				// typed accessors
				for _, t := range []quickfix.Tag{34, 9, 369, 7, 16, 36, 108, 45, 371, 373, 789, 38, 54, 212, 95, 90} {
					msg.Header.GetInt(t)
					msg.Body.GetInt(t)
				}
				for _, t := range []quickfix.Tag{52, 122, 60} {
					msg.Header.GetTime(t)
					msg.Body.GetTime(t)
				}
				for _, t := range []quickfix.Tag{43, 97, 123, 141} {
					msg.Header.GetBool(t)
					msg.Body.GetBool(t)
				}
				var dec quickfix.FIXDecimal
				msg.Body.GetField(44, &dec)
				var fl quickfix.FIXFloat
				msg.Body.GetField(38, &fl)
				msg.MsgType()
				msg.IsMsgTypeOf("D")
				for _, g := range c09Groups {
					if !msg.Body.Has(g.count) {
						continue
					}
					tmpl := quickfix.GroupTemplate{}
					for _, e := range g.elems {
						tmpl = append(tmpl, quickfix.GroupElement(e))
					}
					rg := quickfix.NewRepeatingGroup(g.count, tmpl)
					if gerr := msg.Body.GetGroup(rg); gerr == nil {
						for k := 0; k < rg.Len(); k++ {
							rg.Get(k).GetString(g.elems[0])
						}
					}
					env.Stat("probe_api_group_read")
				}
				_ = msg.String()
				_ = fmt.Sprint(msg.Body.Tags())
			}()
			if env.Failed() {
				return
			}
		}
	}
}
