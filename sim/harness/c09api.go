package harness

import (
	"github.com/quickfixgo/quickfix/verifsim/simsync"
	"time"
	"sync/atomic"
	"verifsim/wire"
	"strconv"
	"bytes"
	"fmt"
	"os"
	"runtime/debug"
	"sort"
	"strings"
	"sync"

	"github.com/quickfixgo/quickfix"
	"github.com/quickfixgo/quickfix/datadictionary"
)

// The API half of C09 as far as it rides along with the simulation for free: every corrupted frame the
// network fault produces (and some truncations of it) is also handed to the public parsing API directly, with
// and without dictionaries, and the result is read through the typed accessors. These calls involve no
// schedule, clock or fault of their own; the only oracle is "returns a value or an error".

var (
	c09DictOnce sync.Once
	c09Dicts    map[string]*datadictionary.DataDictionary
)

func c09LoadDicts() {
	c09DictOnce.Do(func() {
		c09Dicts = map[string]*datadictionary.DataDictionary{}
		for _, n := range []string{"FIX42", "FIX44", "FIXT11", "FIX50SP2"} {
			if d, err := datadictionary.Parse("/repo/spec/" + n + ".xml"); err == nil {
				c09Dicts[n] = d
			}
		}
	})
}

var c09Groups = []struct {
	count quickfix.Tag
	elems []quickfix.Tag
}{
	{268, []quickfix.Tag{269, 270, 271}},
	{267, []quickfix.Tag{269}},
	{146, []quickfix.Tag{55, 65}},
	{453, []quickfix.Tag{448, 447, 452}},
	{78, []quickfix.Tag{79, 80}},
	{555, []quickfix.Tag{600, 624}},
}

// c09APIProbe parses b (and prefixes of it) and reads the result; a panic is reported as a violation.
func c09APIProbe(env *Env, b []byte, variant int) {
	c09LoadDicts()
	inputs := [][]byte{b}
	// truncations: at an arbitrary byte, and after the first 1, 2, 3 fields
	if len(b) > 2 {
		inputs = append(inputs, b[:1+variant%(len(b)-1)])
	}
	n := 0
	for i, c := range b {
		if c == 1 {
			n++
			if n <= 3 {
				inputs = append(inputs, b[:i+1])
			}
		}
	}
	// one Message object is parsed into again and again, as the engine does when it answers a ResendRequest
	// (every stored message of the range goes into the same Message)
	reused := quickfix.NewMessage()
	_ = quickfix.ParseMessage(reused, bytes.NewBufferString("8=FIX.4.2\x019=49\x0135=0\x0149=A\x0156=B\x0134=1\x0152=20000101-00:00:00\x0110=000\x01"))
	for _, in := range inputs {
		for mode := 0; mode < 4; mode++ {
			func() {
				defer func() {
					if r := recover(); r != nil {
						env.Violate("C09/api-panic", "parsing/reading %q (mode %d) panicked: %v", clip(in), mode, r)
					}
				}()
				msg := quickfix.NewMessage()
				if mode == 3 {
					msg = reused
				}
				var err error
				buf := bytes.NewBuffer(append([]byte(nil), in...))
				switch mode {
				case 0:
					err = quickfix.ParseMessage(msg, buf)
				case 1:
					err = quickfix.ParseMessageWithDataDictionary(msg, buf, c09Dicts["FIX44"], c09Dicts["FIX44"])
				case 2:
					err = quickfix.ParseMessageWithDataDictionary(msg, buf, c09Dicts["FIXT11"], c09Dicts["FIX50SP2"])
				case 3:
					err = quickfix.ParseMessage(msg, buf)
				}
				env.Stat("probe_api_parse")
				if err != nil {
					return
				}
				// typed accessors
				for _, t := range []quickfix.Tag{34, 9, 369, 7, 16, 36, 108, 45, 371, 373, 789, 38, 54, 212, 95, 90} {
					msg.Header.GetInt(t)
					msg.Body.GetInt(t)
				}
				for _, t := range []quickfix.Tag{52, 122, 60} {
					msg.Header.GetTime(t)
					msg.Body.GetTime(t)
				}
				for _, t := range []quickfix.Tag{43, 97, 123, 141} {
					msg.Header.GetBool(t)
					msg.Body.GetBool(t)
				}
				var dec quickfix.FIXDecimal
				msg.Body.GetField(44, &dec)
				var fl quickfix.FIXFloat
				msg.Body.GetField(38, &fl)
				msg.MsgType()
				msg.IsMsgTypeOf("D")
				for _, g := range c09Groups {
					if !msg.Body.Has(g.count) {
						continue
					}
					tmpl := quickfix.GroupTemplate{}
					for _, e := range g.elems {
						tmpl = append(tmpl, quickfix.GroupElement(e))
					}
					rg := quickfix.NewRepeatingGroup(g.count, tmpl)
					if gerr := msg.Body.GetGroup(rg); gerr == nil {
						for k := 0; k < rg.Len(); k++ {
							rg.Get(k).GetString(g.elems[0])
						}
					}
					env.Stat("probe_api_group_read")
				}
				_ = msg.String()
				_ = fmt.Sprint(msg.Body.Tags())
			}()
			if env.Failed() {
				return
			}
		}
	}
}

// c09TextProbe hands damaged settings text and damaged dictionary XML to the loaders (the statement's
// "loading any settings or dictionary text"). Pure functions as well; they ride along like the parse probe.
var (
	c09XMLOnce sync.Once
	c09XML     map[string][]byte
)

func c09TextProbe(env *Env) {
	ch := env.Ch
	c09XMLOnce.Do(func() {
		c09XML = map[string][]byte{}
		for _, n := range []string{"FIX40", "FIXT11"} { // the small ones: a load costs a few ms
			if b, err := os.ReadFile("/repo/spec/" + n + ".xml"); err == nil {
				c09XML[n] = b
			}
		}
	})
	damage := func(src []byte) []byte {
		b := append([]byte(nil), src...)
		for k := 1 + ch.Choose("textedits", 3); k > 0 && len(b) > 4; k-- {
			i := ch.Choose("textpos", len(b)-2)
			switch ch.Choose("textedit", 6) {
			case 0:
				b[i] ^= 1 << uint(ch.Choose("bit", 8))
			case 1:
				b = append(b[:i], b[i+1+ch.Choose("dellen", min(40, len(b)-i-1)):]...)
			case 2:
				b = append(b[:i], append([]byte(`"<>&=#[]`)[ch.Choose("ins", 8):][:1], b[i:]...)...)
			case 3:
				b = b[:i]
			case 4: // duplicate a stretch
				j := min(len(b), i+1+ch.Choose("duplen", 60))
				b = append(b[:j], append(append([]byte(nil), b[i:j]...), b[j:]...)...)
			case 5: // swap in a value that is empty or absurd
				b = append(b[:i], append([]byte(`=""`), b[i:]...)...)
			}
		}
		return b
	}
	guard := func(what string, in []byte, f func()) {
		defer func() {
			if r := recover(); r != nil {
				env.Violate("C09/api-panic", "%s panicked on %q: %v", what, clip(in), r)
			}
		}()
		f()
	}
	settings := []byte("[DEFAULT]\nConnectionType=acceptor\nSocketAcceptPort=5001\nHeartBtInt=30\nStartTime=00:00:00\nEndTime=00:00:00\n# comment\n\n[SESSION]\nBeginString=FIX.4.2\nSenderCompID=ENG\nTargetCompID=PEER\nResetOnLogon=Y\n\n[SESSION]\nBeginString=FIXT.1.1\nDefaultApplVerID=9\nSenderCompID=ENG\nTargetCompID=PEER2\nSessionQualifier=q\nStartDay=Monday\nEndDay=Fri\nTimeZone=America/New_York\n")
	in := damage(settings)
	guard("ParseSettings", in, func() {
		if st, err := quickfix.ParseSettings(bytes.NewReader(in)); err == nil {
			st.GlobalSettings()
			for _, ss := range st.SessionSettings() {
				ss.HasSetting("HeartBtInt")
				ss.IntSetting("HeartBtInt")
				ss.BoolSetting("ResetOnLogon")
				ss.DurationSetting("HeartBtInt")
			}
		}
	})
	env.Stat("probe_api_settings_text")
	if env.Failed() {
		return
	}
	// small hand-made dictionaries with structural oddities (components referring to themselves or to each
	// other, missing sections), whole or damaged
	odd := []string{
		`<fix type="FIX" major="4" minor="2"><header/><trailer/><messages/><components><component name="A"><component name="A" required="N"/></component></components><fields/></fix>`,
		`<fix type="FIX" major="4" minor="2"><header/><trailer/><messages/><components><component name="A"><component name="B" required="N"/></component><component name="B"><component name="A" required="Y"/></component></components><fields/></fix>`,
		`<fix type="FIX" major="4" minor="4"><header/><trailer/><messages><message name="M" msgtype="M" msgcat="app"><component name="A" required="N"/></message></messages><components><component name="A"><group name="NoX" required="N"><component name="A" required="N"/></group></component></components><fields><field number="1000" name="NoX" type="NUMINGROUP"/></fields></fix>`,
		`<fix type="FIXT" major="1" minor="1"><messages/><fields/></fix>`,
		`<fix type="FIX" major="4" minor="2"><header><field name="Nope" required="Y"/></header><trailer/><messages/><fields/></fix>`,
		`<fix type="FIX" major="x" minor="2"/>`,
		`<fix type="FIX" major="4" minor="2"><header><field name="BeginString" required="Y"/><field name="BodyLength" required="Y"/><field name="MsgType" required="Y"/><field name="SenderCompID" required="Y"/><field name="TargetCompID" required="Y"/><field name="MsgSeqNum" required="Y"/><field name="SendingTime" required="Y"/></header><trailer><field name="CheckSum" required="Y"/></trailer><messages><message name="M" msgtype="M" msgcat="app"><field name="When" required="N"/><field name="Ref" required="N"/><field name="Odd" required="N"/></message></messages><fields><field number="8" name="BeginString" type="STRING"/><field number="9" name="BodyLength" type="LENGTH"/><field number="35" name="MsgType" type="STRING"/><field number="49" name="SenderCompID" type="STRING"/><field number="56" name="TargetCompID" type="STRING"/><field number="34" name="MsgSeqNum" type="SEQNUM"/><field number="52" name="SendingTime" type="UTCTIMESTAMP"/><field number="10" name="CheckSum" type="STRING"/><field number="1000" name="When" type="LOCALMKTTIME"/><field number="1001" name="Ref" type="XIDREF"/><field number="1002" name="Odd" type="String"/></fields></fix>`,
		`<fix type="FIX" major="4" minor="2"><messages><message name="M" msgtype="M" msgcat="app"><field name="F" required="N"/></message></messages><fields><field number="1000" name="F" type="INT"/></fields></fix>`,
		`<fix type="FIX" major="4" minor="2"><messages><message name="M" msgtype="M" msgcat="app"><group name="G" required="Y"></group></message></messages><fields><field number="5" name="G" type="NUMINGROUP"/></fields></fix>`,
	}
	{
		x := []byte(odd[ch.Choose("oddxml", len(odd))])
		if ch.Chance("oddxmldamage", 1, 3) {
			x = damage(x)
		}
		guard("datadictionary.ParseSrc", x, func() {
			if dd, err := datadictionary.ParseSrc(bytes.NewReader(x)); err == nil && dd != nil {
				// a dictionary that loads is usable for parsing
				m := quickfix.NewMessage()
				_ = quickfix.ParseMessageWithDataDictionary(m, bytes.NewBufferString("8=FIX.4.2\x019=12\x0135=M\x011000=1\x0110=000\x01"), dd, dd)
				// ... and for validating (a session configured with it validates every inbound message)
				c09ValidateWith(dd, "M")
			}
		})
		env.Stat("probe_api_odd_dictionary")
		if env.Failed() {
			return
		}
	}
	name := []string{"FIX40", "FIXT11"}[ch.Choose("xmlfile", 2)]
	if src := c09XML[name]; src != nil {
		x := damage(src)
		guard("datadictionary.ParseSrc", x[:min(len(x), 400)], func() {
			if dd, err := datadictionary.ParseSrc(bytes.NewReader(x)); err == nil && dd != nil {
				_ = dd.FieldTypeByTag
				c09ValidateWith(dd, "0")
				c09ValidateWith(dd, "A")
			}
		})
		env.Stat("probe_api_dictionary_text")
	}
}

// c09FactoryProbe builds an acceptor or initiator from settings in which a few values are absurd (the
// statement's "loading any settings"): the constructors must return an engine or an error.
func c09FactoryProbe(env *Env) {
	ch := env.Ch
	bad := map[string][]string{
		"HeartBtInt":             {"-1", "0", "abc", "99999999999999999999", "", "1.5"},
		"StartTime":              {"25:61:00", "aa", "", "12:00", "-1:00:00", "12:00:00:00"},
		"EndTime":                {"24:00:00", "x", ""},
		"StartDay":               {"Noday", "", "Mon day"},
		"EndDay":                 {"Fryday", ""},
		"Weekdays":               {"Mon,,Tue", "Xyz", ",", ""},
		"TimeZone":               {"Mars/Phobos", "", "UTC+99"},
		"ReconnectInterval":      {"-5", "0", "x"},
		"LogonTimeout":           {"-1", "0", "abc"},
		"LogoutTimeout":          {"-1", "0", ""},
		"MaxLatency":             {"x", "-3", "0"},
		"ResendRequestChunkSize": {"-1", "x"},
		"TimeStampPrecision":     {"PICOS", ""},
		"DataDictionary":         {"/nonexistent.xml", ""},
		"TransportDataDictionary": {"/nonexistent.xml"},
		"AppDataDictionary":      {"/nonexistent.xml"},
		"DefaultApplVerID":       {"", "99", "FIX.9.9"},
		"InChanCapacity":         {"-1", "x", "99999999999"},
		"SocketAcceptPort":       {"-1", "x", "99999999"},
		"SocketConnectPort":      {"", "x"},
		"ResetOnLogon":           {"maybe", ""},
		"PersistMessages":        {"2", ""},
		"BeginString":            {"FIX.9.9", "", "FIXT.1.1"},
		"SenderCompID":           {""},
		"EnableLastMsgSeqNumProcessed": {"x"},
		"ResetSeqTime":           {"25:00:00", "x", "12:00:00", "00:00:00"},
		// well-formed values in unusual combinations (one half of a pair, a list without its times, ...)
		"HeartBtIntOverride":     {"Y", "N", "x"},
		"ResetOnLogout":          {"Y"},
		"RefreshOnLogon":         {"Y"},
		"DynamicSessions":        {"Y", "x"},
		"EnableNextExpectedMsgSeqNum": {"Y", "x"},
		"SocketUseSSL":           {"Y", "x"},
		"FileLogPath":            {"", "/nonexistent/dir"},
		"FileStorePath":          {"", "/nonexistent/dir"},
		"SessionQualifier":      {"", "q q"},
	}
	// also well-formed values for the keys above that are normally given in pairs
	for k, v := range map[string]string{"StartTime": "09:00:00", "EndTime": "17:00:00", "StartDay": "Monday", "EndDay": "Friday", "Weekdays": "Mon,Tue", "TimeZone": "America/New_York"} {
		bad[k] = append(bad[k], v)
	}
	keys := make([]string, 0, len(bad))
	for k := range bad {
		keys = append(keys, k)
	}
	sort.Strings(keys)
	initiator := ch.Chance("factoryinitiator", 1, 2)
	st := quickfix.NewSettings()
	g := st.GlobalSettings()
	if initiator {
		g.Set("SocketConnectHost", "127.0.0.1")
		g.Set("SocketConnectPort", "5001")
		g.Set("HeartBtInt", "30")
	} else {
		g.Set("SocketAcceptPort", "5001")
	}
	ss := quickfix.NewSessionSettings()
	ss.Set("BeginString", "FIX.4.2")
	ss.Set("SenderCompID", "PROBE")
	ss.Set("TargetCompID", "PEERPROBE")
	var desc []string
	for k := 1 + ch.Choose("badsettings", 3); k > 0; k-- {
		key := keys[ch.Choose("badkey", len(keys))]
		val := bad[key][ch.Choose("badval", len(bad[key]))]
		ss.Set(key, val)
		desc = append(desc, key+"="+val)
	}
	defer func() {
		if r := recover(); r != nil {
			env.Violate("C09/api-panic", "building an engine (initiator=%v) from settings %v panicked: %v; %s", initiator, desc, r, engineFrames(debug.Stack()))
		}
	}()
	sid, err := st.AddSession(ss)
	if err != nil {
		return
	}
	env.Stat("probe_api_engine_from_absurd_settings")
	app := nopApp{}
	if initiator {
		if in, err := quickfix.NewInitiator(app, quickfix.NewMemoryStoreFactory(), st, quickfix.NewNullLogFactory()); err == nil && in != nil {
			quickfix.UnregisterSession(sid)
		}
	} else {
		if ac, err := quickfix.NewAcceptor(app, quickfix.NewMemoryStoreFactory(), st, quickfix.NewNullLogFactory()); err == nil && ac != nil {
			quickfix.UnregisterSession(sid)
		}
	}
	// a session that was registered before the constructor failed must not stay behind
	quickfix.UnregisterSession(sid)
}

// engineFrames extracts the engine's own function names from a stack trace.
func engineFrames(stack []byte) string {
	var fr []string
	for _, l := range strings.Split(string(stack), "\n") {
		if strings.HasPrefix(l, "github.com/quickfixgo/quickfix") && !strings.Contains(l, "verifsim") {
			if i := strings.LastIndex(l, "("); i > 0 {
				l = l[:i]
			}
			fr = append(fr, strings.TrimPrefix(l, "github.com/quickfixgo/quickfix"))
			if len(fr) >= 6 {
				break
			}
		}
	}
	return strings.Join(fr, " < ")
}

type nopApp struct{}

func (nopApp) OnCreate(quickfix.SessionID)                           {}
func (nopApp) OnLogon(quickfix.SessionID)                            {}
func (nopApp) OnLogout(quickfix.SessionID)                           {}
func (nopApp) ToAdmin(*quickfix.Message, quickfix.SessionID)         {}
func (nopApp) ToApp(*quickfix.Message, quickfix.SessionID) error     { return nil }
func (nopApp) FromAdmin(*quickfix.Message, quickfix.SessionID) quickfix.MessageRejectError {
	return nil
}
func (nopApp) FromApp(*quickfix.Message, quickfix.SessionID) quickfix.MessageRejectError {
	return nil
}

// c09ValidateWith validates a few well-formed messages of the given type against a dictionary that
// loaded, the way a session configured with it would.
func c09ValidateWith(dd *datadictionary.DataDictionary, msgType string) {
	for _, body := range []string{"", "1000=1\x01", "1000=10:30:00\x011001=x\x011002=y\x01", "58=text\x01112=id\x01"} {
		b := "35=" + msgType + "\x0149=A\x0156=B\x0134=1\x0152=20000101-00:00:00\x01" + body
		raw := wire.Seal([]byte("8=FIX.4.2\x019=" + strconv.Itoa(len(b)) + "\x01" + b))
		for _, parseWith := range []*datadictionary.DataDictionary{nil, dd} {
			m := quickfix.NewMessage()
			if quickfix.ParseMessageWithDataDictionary(m, bytes.NewBuffer(raw), parseWith, parseWith) != nil {
				continue
			}
			quickfix.NewValidator(quickfix.ValidatorSettings{CheckFieldsOutOfOrder: true, RejectInvalidMessage: true, CheckFieldsHaveValues: true, CheckUserDefinedFields: true}, dd, nil).Validate(m)
			quickfix.NewValidator(quickfix.ValidatorSettings{CheckFieldsOutOfOrder: true, RejectInvalidMessage: true, CheckFieldsHaveValues: true, CheckUserDefinedFields: true}, dd, dd).Validate(m)
		}
	}
}

// c09SharedMessageProbe reads one parsed message through the typed accessors from one task while other tasks
// write to it (FieldMap carries a lock for exactly this use). The tasks run under the cooperative scheduler
// with the codec's locks as scheduling points, the chooser decides who runs; like sync.RWMutex, a writer
// that waits keeps new readers out. No accessor may hang (all tasks blocked = deadlock) or panic.
func c09SharedMessageProbe(env *Env) {
	ch := env.Ch
	raw := wire.Encode("FIX.4.2", []wire.Field{wire.F(35, "D"), wire.F(49, "A"), wire.F(56, "B"), wire.FI(34, 7), wire.F(43, "Y"),
		wire.F(52, "20000101-00:00:00.000"), wire.F(122, "20000101-00:00:00"), wire.F(11, "id"), wire.F(38, "100"), wire.F(60, "20000101-00:00:00"),
		wire.F(78, "2"), wire.F(79, "a"), wire.F(80, "1"), wire.F(79, "b"), wire.F(80, "2")})
	msg := quickfix.NewMessage()
	if err := quickfix.ParseMessage(msg, bytes.NewBuffer(raw)); err != nil {
		env.Fatalf("shared-message probe: %v", err)
	}
	other := quickfix.NewMessage()
	reads := []func(fm *quickfix.FieldMap){
		func(fm *quickfix.FieldMap) { fm.GetTime(52) },
		func(fm *quickfix.FieldMap) { fm.GetTime(60) },
		func(fm *quickfix.FieldMap) { fm.GetInt(34) },
		func(fm *quickfix.FieldMap) { fm.GetString(49) },
		func(fm *quickfix.FieldMap) { fm.GetBool(43) },
		func(fm *quickfix.FieldMap) { fm.GetBytes(11) },
		func(fm *quickfix.FieldMap) { fm.Has(38) },
		func(fm *quickfix.FieldMap) { fm.Tags() },
		func(fm *quickfix.FieldMap) {
			var f quickfix.FIXFloat
			fm.GetField(38, &f)
		},
		func(fm *quickfix.FieldMap) {
			fm.GetGroup(quickfix.NewRepeatingGroup(78, quickfix.GroupTemplate{quickfix.GroupElement(79), quickfix.GroupElement(80)}))
		},
	}
	writes := []func(fm *quickfix.FieldMap, i int){
		func(fm *quickfix.FieldMap, i int) { fm.SetString(58, "t"+strconv.Itoa(i)) },
		func(fm *quickfix.FieldMap, i int) { fm.SetInt(34, 8+i) },
		func(fm *quickfix.FieldMap, i int) { fm.SetBool(43, i%2 == 0) },
		func(fm *quickfix.FieldMap, i int) { fm.SetField(52, quickfix.FIXUTCTimestamp{Time: time.Unix(int64(i), 0)}) },
		func(fm *quickfix.FieldMap, i int) { fm.Remove(11) },
		func(fm *quickfix.FieldMap, i int) { fm.CopyInto(&other.Body.FieldMap) },
	}
	maps := []*quickfix.FieldMap{&msg.Header.FieldMap, &msg.Body.FieldMap}
	type op struct {
		write bool
		k, fm int
	}
	nTasks := 2 + ch.Choose("sharedtasks", 2)
	plans := make([][]op, nTasks)
	for t := range plans {
		for n := 1 + ch.Choose("sharedops", 4); n > 0; n-- {
			o := op{write: t > 0 && ch.Chance("sharedwrite", 2, 3), fm: ch.Choose("sharedmap", 2)}
			if o.write {
				o.k = ch.Choose("sharedwriteop", len(writes))
			} else {
				o.k = ch.Choose("sharedreadop", len(reads))
			}
			plans[t] = append(plans[t], o)
		}
	}
	sched := simsync.NewScheduler()
	sched.CodecLocks = true
	simsync.Install(sched)
	defer simsync.Install(nil)
	var running atomic.Int32
	var panicked atomic.Value
	for t := range plans {
		running.Add(1)
		name, plan := fmt.Sprintf("shared%d", t), plans[t]
		go func() {
			simsync.Register(name)
			defer func() {
				if r := recover(); r != nil {
					panicked.Store(fmt.Sprintf("%s: %v", name, r))
				}
				simsync.Unregister()
				running.Add(-1)
			}()
			simsync.Yield("shared:start")
			for i, o := range plan {
				if o.write {
					writes[o.k](maps[o.fm], i)
				} else {
					reads[o.k](maps[o.fm])
				}
			}
		}()
	}
	for step := 0; step < 4000; step++ {
		env.Settle()
		parked := sched.Parked()
		if len(parked) == 0 {
			if running.Load() > 0 {
				var d []string
				for _, o := range sched.AllParked() {
					d = append(d, fmt.Sprintf("%s at %s (%s)", o.Name, o.Site, o.Kind))
				}
				env.Violate("C09/api-hang", "tasks sharing one message block each other for good: %v", d)
			}
			break
		}
		sched.Resume(parked[ch.Choose("sharedpick", len(parked))])
	}
	sched.Drain()
	env.Settle()
	if v := panicked.Load(); v != nil {
		env.Violate("C09/api-panic", "accessor on a shared message panicked: %v", v)
	}
	env.Stat("probe_api_shared_message")
}
