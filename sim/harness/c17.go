package harness

import (
	"bytes"
	"fmt"
	"sort"
	"strings"

	"github.com/quickfixgo/quickfix"
	"github.com/quickfixgo/quickfix/config"
	filestore "github.com/quickfixgo/quickfix/store/file"
	sqlstore "github.com/quickfixgo/quickfix/store/sql"
	"github.com/quickfixgo/quickfix/verifsim/simos"
)

// C17 — a crash never leaves the persistent store ahead of or without its messages.
//
// File store (FileStoreSync=Y): a generated history is executed once, uninterrupted, on the
// simulated disk, which logs every file operation. The LAST operation of the history is the
// interrupted one. Every crash point of it is then enumerated from the op log: before each of its
// disk ops and inside each of its writes (every byte for writes up to 64 bytes, first/last/sampled
// bytes beyond), each as a process-crash image (everything written so far survives) and as
// power-loss images (per file only synced content plus a prefix of the unsynced writes). On each
// image a fresh store is opened with the real code and the statement is evaluated literally; then
// further operations run on the recovered store against the model seeded with the recovered state.
//
// SQL store: each statement of save-and-increment (BEGIN, INSERT, UPDATE, COMMIT) is failed in turn
// through the driver wrapper.

func init() {
	Register(&Property{ID: "C17", Run: runC17,
		Rule: "file store: histories of 1-8 operations (biased to save-and-increment, counters around 9->10, 99->100, 999->1000 carries, reset, reopen), last operation interrupted; crash points ENUMERATED over its disk ops and write bytes; process-crash and power-loss images; reopen + literal evaluation + 1-3 further operations. SQL store: every statement of save-and-increment failed in turn. Non-trivial: at least 10 crash images of an operation that writes were judged (or all four SQL statement failures); distinct: canonical trace hash"})
}

type c17State struct {
	S, T int
	msgs map[int][]byte
}

func (s c17State) clone() c17State {
	m := map[int][]byte{}
	for k, v := range s.msgs {
		m[k] = v
	}
	return c17State{s.S, s.T, m}
}

func runC17(env *Env, tier string) {
	if env.Ch.Chance("sql", 1, 5) {
		runC17SQL(env)
		return
	}
	ch := env.Ch
	fs := simos.NewFS()
	simos.SetCurrent(fs)
	settings := quickfix.NewSettings()
	ss := quickfix.NewSessionSettings()
	ss.Set(config.BeginString, "FIX.4.2")
	ss.Set(config.SenderCompID, "SND")
	ss.Set(config.TargetCompID, "TGT")
	ss.Set(config.FileStorePath, "/crash/store")
	ss.Set(config.FileStoreSync, "Y")
	sid, _ := settings.AddSession(ss)
	open := func() (quickfix.MessageStore, error) { return filestore.NewStoreFactory(settings).Create(sid) }

	st, err := open()
	if err != nil {
		env.Fatalf("create: %v", err)
	}
	cur := c17State{S: 1, T: 1, msgs: map[int][]byte{}}
	payload := func(n int) []byte {
		switch ch.Weighted("payload", []int{5, 2, 1, 1}) {
		case 1:
			return []byte(fmt.Sprintf("m%d", n))
		case 2:
			return []byte(fmt.Sprintf("%d,%d,%d\nnewline and comma inside message %d\n", n, n, n, n))
		case 3:
			return bytes.Repeat([]byte(fmt.Sprintf("<%d>", n)), 40+ch.Choose("long", 60))
		}
		return []byte(fmt.Sprintf("8=FIX.4.2\x019=30\x0135=D\x0134=%d\x0158=payload-%d\x0110=000\x01", n, n))
	}
	carries := []int{9, 10, 99, 100, 999, 1000, 9999, 99999, 999999999}
	type opDesc struct {
		label string
		do    func(st quickfix.MessageStore, s *c17State) (quickfix.MessageStore, error)
		inflightN int
		inflight  []byte
		kind  string
	}
	gen := func(last bool) opDesc {
		w := []int{8, 2, 2, 2, 1, 1, 2, 1}
		switch ch.Weighted("op", w) {
		case 0:
			n := cur.S
			b := payload(n)
			return opDesc{label: fmt.Sprintf("SaveMessageAndIncrNextSenderMsgSeqNum(%d, %d bytes)", n, len(b)), kind: "saveincr", inflightN: n, inflight: b,
				do: func(st quickfix.MessageStore, s *c17State) (quickfix.MessageStore, error) {
					err := st.SaveMessageAndIncrNextSenderMsgSeqNum(n, b)
					s.msgs[n] = b
					s.S++
					return st, err
				}}
		case 1:
			n := carries[ch.Choose("carry", len(carries))]
			if ch.Chance("before", 1, 2) {
				n--
			}
			if n < 1 {
				n = 1
			}
			// a new epoch of numbers above n must not collide with saved messages: only move forward
			for k := range cur.msgs {
				if k >= n {
					n = k + 1
				}
			}
			return opDesc{label: fmt.Sprintf("SetNextSenderMsgSeqNum(%d)", n), kind: "counter",
				do: func(st quickfix.MessageStore, s *c17State) (quickfix.MessageStore, error) {
					s.S = n
					return st, st.SetNextSenderMsgSeqNum(n)
				}}
		case 2:
			n := carries[ch.Choose("carry", len(carries))] - ch.Choose("beforeT", 2)
			if n < 1 {
				n = 1
			}
			return opDesc{label: fmt.Sprintf("SetNextTargetMsgSeqNum(%d)", n), kind: "counter",
				do: func(st quickfix.MessageStore, s *c17State) (quickfix.MessageStore, error) {
					s.T = n
					return st, st.SetNextTargetMsgSeqNum(n)
				}}
		case 3:
			return opDesc{label: "IncrNextTargetMsgSeqNum", kind: "counter",
				do: func(st quickfix.MessageStore, s *c17State) (quickfix.MessageStore, error) {
					s.T++
					return st, st.IncrNextTargetMsgSeqNum()
				}}
		case 4:
			return opDesc{label: "IncrNextSenderMsgSeqNum", kind: "counter",
				do: func(st quickfix.MessageStore, s *c17State) (quickfix.MessageStore, error) {
					s.S++
					return st, st.IncrNextSenderMsgSeqNum()
				}}
		case 5:
			return opDesc{label: "Reset", kind: "reset",
				do: func(st quickfix.MessageStore, s *c17State) (quickfix.MessageStore, error) {
					s.S, s.T, s.msgs = 1, 1, map[int][]byte{}
					return st, st.Reset()
				}}
		case 6:
			return opDesc{label: "close and reopen", kind: "reopen",
				do: func(st quickfix.MessageStore, s *c17State) (quickfix.MessageStore, error) {
					if err := st.Close(); err != nil {
						return st, err
					}
					return open()
				}}
		default:
			return opDesc{label: "Refresh", kind: "reopen",
				do: func(st quickfix.MessageStore, s *c17State) (quickfix.MessageStore, error) {
					return st, st.Refresh()
				}}
		}
	}
	nops := 1 + ch.Choose("nops", 8)
	var before c17State
	var lastOp opDesc
	k0 := 0
	for i := 0; i < nops; i++ {
		op := gen(i == nops-1)
		if i == nops-1 {
			before = cur.clone()
			k0 = fs.NumOps()
			lastOp = op
		}
		env.Note("%s", op.label)
		var err error
		st, err = op.do(st, &cur)
		if err != nil {
			env.Violate("C17/file/error-without-fault", "%s failed on a healthy disk: %v", op.label, err)
			return
		}
	}
	after := cur.clone()
	k1 := fs.NumOps()
	ops := append([]simos.Op(nil), fs.Ops...)
	dirs := fs.Dirs()
	st.Close()
	env.Cfg["interrupted"] = lastOp.label
	env.Cfg["disk_ops_of_interrupted_operation"] = k1 - k0

	// ---- enumerate crash points of the interrupted operation ----
	type point struct{ k, cut int }
	var points []point
	for k := k0; k <= k1; k++ {
		points = append(points, point{k, 0}) // before op k (k==k1: after the whole operation)
		if k < k1 && ops[k].Kind == simos.OpWrite {
			n := len(ops[k].Data)
			if n <= 64 {
				for c := 1; c < n; c++ {
					points = append(points, point{k, c})
				}
			} else {
				seen := map[int]bool{}
				for _, c := range []int{1, 2, n / 2, n - 2, n - 1} {
					seen[c] = true
				}
				for j := 0; j < 6; j++ {
					seen[1+ch.Choose("cut", n-1)] = true
				}
				var cs []int
				for c := range seen {
					if c > 0 && c < n {
						cs = append(cs, c)
					}
				}
				sort.Ints(cs)
				for _, c := range cs {
					points = append(points, point{k, c})
				}
			}
		}
	}
	images := 0
	tornFile := ""
	phase := ""
	judge := func(img map[string][]byte, what string) {
		images++
		nfs := simos.FromImage(img, dirs)
		simos.SetCurrent(nfs)
		c17Judge(env, open, before, after, lastOp.kind, lastOp.inflightN, lastOp.inflight, what, ch, tornFile, lastOp.kind+"/"+phase)
	}
	for _, pt := range points {
		if env.Failed() {
			break
		}
		what := fmt.Sprintf("process crash before disk op %d of %d", pt.k-k0, k1-k0)
		tornFile = ""
		if pt.k < k1 && pt.cut > 0 {
			tornFile = ops[pt.k].Path
		}
		// phase of the crash point inside the interrupted operation, for fingerprints
		phase = "complete"
		if pt.k < k1 {
			if pt.cut > 0 {
				phase = "inside-" + ops[pt.k].Kind.String() + "." + shortPath(ops[pt.k].Path)
			} else {
				prev := "start"
				if pt.k > k0 {
					prev = ops[pt.k-1].Kind.String() + "." + shortPath(ops[pt.k-1].Path)
				}
				phase = "after-" + prev + "-before-" + ops[pt.k].Kind.String() + "." + shortPath(ops[pt.k].Path)
			}
		}
		if pt.k < k1 {
			what += fmt.Sprintf(" (%s %s", ops[pt.k].Kind, shortPath(ops[pt.k].Path))
			if pt.cut > 0 {
				what += fmt.Sprintf(", cut after %d of %d bytes", pt.cut, len(ops[pt.k].Data))
				if isCounterFile(ops[pt.k].Path) {
					env.Stat("probe_crash_inside_counter_rewrite")
				}
			}
			what += ")"
		}
		judge(simos.ImageAt(nil, ops, pt.k, pt.cut, false, nil), what)
		env.Stat("fault_process_crash")
		// power loss: per file only synced content plus a prefix of the unsynced writes
		pend := simos.PendingCounts(nil, ops, pt.k, pt.cut)
		var files []string
		combos := 1
		for f, n := range pend {
			if n > 0 {
				files = append(files, f)
				combos *= n + 1
			}
		}
		sort.Strings(files)
		if len(files) == 0 {
			continue // identical to the process-crash image
		}
		try := func(keep map[string]int) {
			desc := "power loss: " + what[len("process crash "):] + " keeping"
			for _, f := range files {
				desc += fmt.Sprintf(" %s:%d/%d", shortPath(f), keep[f], pend[f])
			}
			judge(simos.ImageAt(nil, ops, pt.k, pt.cut, true, keep), desc)
			env.Stat("fault_power_loss")
		}
		if combos <= 12 {
			idx := make([]int, len(files))
			for {
				keep := map[string]int{}
				full := true
				for i, f := range files {
					keep[f] = idx[i]
					if idx[i] != pend[f] {
						full = false
					}
				}
				if !full { // all-kept equals the process-crash image
					try(keep)
				}
				i := 0
				for ; i < len(files); i++ {
					idx[i]++
					if idx[i] <= pend[files[i]] {
						break
					}
					idx[i] = 0
				}
				if i == len(files) || env.Failed() {
					break
				}
			}
		} else {
			try(map[string]int{})
			for j := 0; j < 6 && !env.Failed(); j++ {
				keep := map[string]int{}
				for _, f := range files {
					keep[f] = ch.Choose("keep", pend[f]+1)
				}
				try(keep)
			}
		}
	}
	env.StatN("probe_crash_images_judged", images)
	env.Nontrivial = images >= 10 && lastOp.kind != "reopen" || images >= 10
	env.State(fmt.Sprintf("file interrupted=%s", lastOp.kind))
}

func shortPath(p string) string {
	if i := strings.LastIndex(p, "."); i >= 0 {
		return p[i+1:]
	}
	return p
}

func isCounterFile(p string) bool { return strings.HasSuffix(p, "seqnums") }

// c17Judge opens a fresh store on the current simulated disk and evaluates the statement.
func c17Judge(env *Env, open func() (quickfix.MessageStore, error), before, after c17State, kind string, inN int, inB []byte, what string, ch *Chooser, tornFile string, phase string) {
	fail := func(fp, format string, a ...any) {
		env.Violate(fp, "%s: %s", what, fmt.Sprintf(format, a...))
	}
	resetCounterAhead := false
	_ = resetCounterAhead
	st, err := open()
	if err != nil {
		fail("C17/file/reopen-fails/"+phase, "reopening the store failed: %v", err)
		return
	}
	defer st.Close()
	S, T := st.NextSenderMsgSeqNum(), st.NextTargetMsgSeqNum()
	if S != before.S && S != after.S {
		fp := "C17/file/sender-counter-neither-before-nor-after"
		if strings.HasSuffix(tornFile, "senderseqnums") {
			// the crash point lies inside the 19-digit in-place rewrite of this very counter
			fp = "C17/file/counter-torn-in-place-rewrite"
		}
		fail(fp, "recovered NextSenderMsgSeqNum %d, before the interrupted operation %d, after it %d", S, before.S, after.S)
		return
	}
	if T != before.T && T != after.T {
		fpT := "C17/file/target-counter-neither-before-nor-after"
		if strings.HasSuffix(tornFile, "targetseqnums") {
			fpT = "C17/file/counter-torn-in-place-rewrite"
		}
		fail(fpT, "recovered NextTargetMsgSeqNum %d, before the interrupted operation %d, after it %d", T, before.T, after.T)
		return
	}
	// per-number reads: completed saves intact, the in-flight message whole or absent, nothing else
	recovered := map[int][]byte{}
	maxN := inN
	for n := range before.msgs {
		if n > maxN {
			maxN = n
		}
	}
	// numbers worth asking for: every saved one, the in-flight one, and their neighbours
	cand := map[int]bool{1: true, 2: true}
	for n := range before.msgs {
		cand[n], cand[n+1] = true, true
		if n > 1 {
			cand[n-1] = true
		}
	}
	if inB != nil {
		cand[inN], cand[inN+1] = true, true
	}
	var cands []int
	for n := range cand {
		cands = append(cands, n)
	}
	sort.Ints(cands)
	for _, n := range cands {
		got, err := st.GetMessages(n, n)
		want, completed := before.msgs[n]
		if err != nil && n == inN && inB != nil && !completed {
			// the in-flight message is not readable: allowed (it may be absent), never wrong bytes
			env.Stat("probe_inflight_unreadable")
			continue
		}
		if err != nil {
			if kind == "reset" {
				fail("C17/file/reset-crash-read-error/"+phase, "GetMessages(%d,%d) fails after a crash inside Reset: %v", n, n, err)
			} else {
				fail("C17/file/read-error/"+phase, "GetMessages(%d,%d): %v", n, n, err)
			}
			return
		}
		switch {
		case completed && kind == "reset":
			if len(got) > 1 || (len(got) == 1 && !bytes.Equal(got[0], want)) {
				fail("C17/file/torn-or-foreign-bytes", "number %d after a crash inside Reset: %d results, first %q, saved was %q", n, len(got), clip(first(got)), clip(want))
				return
			}
			// "when the recovered outbound counter says number n was used, message n is retrievable intact":
			// Reset removes the index and the body before the counter files, so a crash in between leaves the
			// old counter with nothing behind it. (Known finding: the opposite order leaves stale index lines
			// under a counter of 1, which is worse; an atomic reset needs a different file layout.)
			if len(got) == 0 && n < S && S == before.S {
				fail("C17/file/reset-leaves-counter-ahead-of-messages", "crash inside Reset: recovered NextSenderMsgSeqNum %d says number %d was used, but message %d is gone", S, n, n)
				resetCounterAhead = true
			}
		case completed:
			if len(got) != 1 || !bytes.Equal(got[0], want) {
				fail("C17/file/completed-message-lost/"+phase, "message %d was saved before the interrupted operation; GetMessages returns %d results, first %q, saved %q", n, len(got), clip(first(got)), clip(want))
				return
			}
		case n == inN && inB != nil:
			if len(got) > 1 || (len(got) == 1 && !bytes.Equal(got[0], inB)) {
				fail("C17/file/torn-or-foreign-bytes/"+phase, "in-flight message %d: GetMessages returns %d results, first %q; the message being saved was %q", n, len(got), clip(first(got)), clip(inB))
				return
			}
			if len(got) == 0 && kind == "saveincr" && S == after.S && after.S != before.S {
				fail("C17/file/counter-ahead-of-message/"+phase, "recovered NextSenderMsgSeqNum %d says number %d was used, but message %d is not retrievable", S, n, n)
				return
			}
		default:
			if len(got) != 0 {
				fail("C17/file/torn-or-foreign-bytes", "number %d was never saved, GetMessages returns %q", n, clip(first(got)))
				return
			}
		}
		if len(got) == 1 {
			recovered[n] = got[0]
		}
	}
	// whole-range read agrees with the per-number reads
	all, err := st.GetMessages(1, maxN+2)
	if err != nil {
		fail("C17/file/range-read-error/"+phase, "GetMessages(1,%d) over completed messages fails: %v", maxN+2, err)
		return
	}
	var keys []int
	for n := range recovered {
		keys = append(keys, n)
	}
	sort.Ints(keys)
	if len(all) != len(keys) {
		fail("C17/file/range-read-disagrees", "GetMessages(1,%d) returns %d messages, the per-number reads %d", maxN+2, len(all), len(keys))
		return
	}
	for i, n := range keys {
		if !bytes.Equal(all[i], recovered[n]) {
			fail("C17/file/range-read-disagrees", "GetMessages(1,%d)[%d] differs from GetMessages(%d,%d)", maxN+2, i, n, n)
			return
		}
	}
	// further operations on the recovered store, against the model seeded with the recovered state
	m := c17State{S: S, T: T, msgs: recovered}
	for j := 0; j < 2; j++ {
		// the engine gives its next message the number the recovered counter names - also when the
		// interrupted save left a message under that very number behind (the counter was not advanced)
		n := m.S
		b := []byte(fmt.Sprintf("after-recovery-%d-%d|", n, j))
		if err := st.SaveMessageAndIncrNextSenderMsgSeqNum(n, b); err != nil {
			fail("C17/file/after-recovery/"+phase, "SaveMessageAndIncrNextSenderMsgSeqNum(%d) on the recovered store: %v", n, err)
			return
		}
		m.msgs[n] = b
		m.S++
		for q := range m.msgs {
			got, err := st.GetMessages(q, q)
			if err != nil || len(got) != 1 || !bytes.Equal(got[0], m.msgs[q]) {
				fail("C17/file/after-recovery/"+phase, "after saving %d on the recovered store GetMessages(%d,%d) = %d results %q (err %v), want %q", n, q, q, len(got), clip(first(got)), err, clip(m.msgs[q]))
				return
			}
		}
		if st.NextSenderMsgSeqNum() != m.S {
			fail("C17/file/after-recovery/"+phase, "NextSenderMsgSeqNum %d, model %d", st.NextSenderMsgSeqNum(), m.S)
			return
		}
	}
}

func first(b [][]byte) []byte {
	if len(b) == 0 {
		return nil
	}
	return b[0]
}

// ---------------------------------------------------------------------------------------------

func runC17SQL(env *Env) {
	ch := env.Ch
	dsn, keeper, err := NewSQLDatabase()
	if err != nil {
		env.Fatalf("sqlite: %v", err)
	}
	env.OnCleanup(func() { keeper.Close(); SQLFaults.Reset() })
	SQLFaults.Reset()
	settings := quickfix.NewSettings()
	ss := quickfix.NewSessionSettings()
	ss.Set(config.BeginString, "FIX.4.4")
	ss.Set(config.SenderCompID, "SND")
	ss.Set(config.TargetCompID, "TGT")
	ss.Set(config.SQLStoreDriver, "simsqlite3")
	ss.Set(config.SQLStoreDataSourceName, dsn)
	sid, _ := settings.AddSession(ss)
	open := func() (quickfix.MessageStore, error) { return sqlstore.NewStoreFactory(settings).Create(sid) }
	st, err := open()
	if err != nil {
		env.Fatalf("create: %v", err)
	}
	defer func() { st.Close() }()
	S := 1
	msgs := map[int][]byte{}
	for k := ch.Choose("prefix", 6); k > 0; k-- {
		b := []byte(fmt.Sprintf("sql-message-%d", S))
		if err := st.SaveMessageAndIncrNextSenderMsgSeqNum(S, b); err != nil {
			env.Violate("C17/sql/error-without-fault", "save-and-increment failed without a fault: %v", err)
			return
		}
		msgs[S] = b
		S++
	}
	fired := 0
	for _, stmt := range []string{"begin", "insert", "update", "commit"} {
		n := S
		b := []byte(fmt.Sprintf("sql-inflight-%d-%s", n, stmt))
		SQLFaults.Arm(stmt, 1)
		err := st.SaveMessageAndIncrNextSenderMsgSeqNum(n, b)
		env.Note("save-and-increment(%d) with %s failing -> %v", n, stmt, err)
		if err == nil {
			env.Violate("C17/sql/failure-swallowed", "%s failed but save-and-increment reported success", stmt)
			return
		}
		env.Stat("fault_sql_" + stmt + "_fails")
		fired++
		check := func(s quickfix.MessageStore, which string) bool {
			if got := s.NextSenderMsgSeqNum(); got != n {
				env.Violate("C17/sql/increment-left-behind", "%s fails: %s shows NextSenderMsgSeqNum %d, was %d", stmt, which, got, n)
				return false
			}
			got, err := s.GetMessages(n, n)
			if err != nil || len(got) != 0 {
				env.Violate("C17/sql/message-left-behind", "%s fails: %s returns %d messages for %d (err %v)", stmt, which, len(got), n, err)
				return false
			}
			for q, want := range msgs {
				g, err := s.GetMessages(q, q)
				if err != nil || len(g) != 1 || !bytes.Equal(g[0], want) {
					env.Violate("C17/sql/earlier-message-damaged", "%s fails: %s no longer returns message %d intact", stmt, which, q)
					return false
				}
			}
			return true
		}
		if !check(st, "the same store object") {
			return
		}
		fresh, err := open()
		if err != nil {
			env.Violate("C17/sql/reopen-fails", "reopen after a failed %s: %v", stmt, err)
			return
		}
		ok := check(fresh, "a fresh store on the same database")
		fresh.Close()
		if !ok {
			return
		}
		// and the operation works when retried
		b2 := []byte(fmt.Sprintf("sql-retry-%d", n))
		if err := st.SaveMessageAndIncrNextSenderMsgSeqNum(n, b2); err != nil {
			env.Violate("C17/sql/retry-fails", "retry after a failed %s: %v", stmt, err)
			return
		}
		msgs[n] = b2
		S++
	}
	env.Nontrivial = fired == 4
	env.State("sql")
}
