package harness

import (
	"github.com/quickfixgo/quickfix/verifsim/simsync"
	"fmt"
	"time"

	"github.com/quickfixgo/quickfix/verifsim/simnet"
	"github.com/quickfixgo/quickfix/verifsim/simos"
)

// C05 — two engines deliver every application message exactly once across disconnects.
//
// A real Initiator and a real Acceptor in one bubble, the simulated network between them (pumped
// links with a fixed one-way latency), memory or file stores (file stores on the simulated disk).

func init() {
	Register(&Property{ID: "C05", Run: runC05,
		Rule: "real Initiator + real Acceptor, both applications sending (bursts of 1-4), 15-80 steps with faults placed right after sends, during logon and during replays: link cut losing a chooser-picked suffix of the in-flight bytes per direction (also mid-message), half-open link then cut, reconnects refused for a while, engine crash and restart on its persistent store (file store: process-crash image or power-loss image with only synced data); HeartBtInt 2-5 s, ReconnectInterval 1-3 s, latency 0.1-20 ms; then a fault-free settle period and the end-to-end oracle; write errors on a cut link; orderly stop and recreation of an engine; EnableNextExpectedMsgSeqNum on both sides in a fifth of the FIX.4.4+ runs; one side's application answering every Logon from inside the callback; a SendToTarget in flight (inside its ToApp callback) across an orderly stop with the link down; a twelfth of the runs: a real initiator against the stub counterparty, a session-ending message with 2-4 complete frames behind it in one read - the initiator dials again, logs on, delivers. Non-trivial: at least one fault fired while messages were in flight or queued and both sides delivered something; distinct: canonical trace hash"})
}

type c05Side struct {
	name     string
	cfg      EngineCfg
	eng      *Engine
	sent     []string // ids whose SendToTarget returned nil, in order
	got      []string // ids seen by FromApp on THIS side (sent by the other), across incarnations
	gotSet   map[string]int
	restarts int
}

func runC05(env *Env, tier string) {
	ch := env.Ch
	if ch.Chance("stubcounterparty", 1, 12) {
		c05StrandedFrames(env)
		return
	}
	w := simnet.NewWorld()
	simnet.SetCurrent(w)
	w.Latency = time.Duration(100+ch.Choose("latency_us", 19900)) * time.Microsecond
	fsys := simos.Current()
	store := "memory"
	if ch.Chance("filestore", 1, 2) {
		store = "file"
	}
	hb := []int{3, 2, 5}[ch.Choose("hb", 3)]
	begin := beginStrings[ch.Choose("begin", len(beginStrings))]
	I := &c05Side{name: "I", gotSet: map[string]int{}}
	A := &c05Side{name: "A", gotSet: map[string]int{}}
	I.cfg = EngineCfg{Name: "I", Initiator: true, BeginString: begin, Sender: "INIT", Target: "ACPT", Port: 5001, HeartBtInt: hb,
		InChanCap: -1, Store: store, StoreDir: "/c05/I", ReconnectInterval: 1 + ch.Choose("reconnect", 3), LogonTimeout: 4, LogoutTimeout: 7}
	A.cfg = EngineCfg{Name: "A", BeginString: begin, Sender: "ACPT", Target: "INIT", Port: 5001, HeartBtInt: hb, InChanCap: -1, Store: store, StoreDir: "/c05/A"}
	if ch.Chance("chunk", 1, 4) {
		I.cfg.ChunkSize = 1 + ch.Choose("chunksize", 4)
		A.cfg.ChunkSize = 1 + ch.Choose("chunksize", 4)
	}
	if begin >= "FIX.4.4" && ch.Chance("nextexpected", 1, 5) {
		// both sides announce the number they expect next in their Logon (tag 789)
		I.cfg.Extra = map[string]string{"EnableNextExpectedMsgSeqNum": "Y"}
		A.cfg.Extra = map[string]string{"EnableNextExpectedMsgSeqNum": "Y"}
		env.Stat("probe_next_expected_msg_seq_num")
	}
	cl := NewConnLog(env, w)
	cl.OwnerOf = func(ep *simnet.Endpoint) string {
		if ep.Side() == 0 {
			return "I"
		}
		return "A"
	}
	sides := map[string]*c05Side{"I": I, "A": A}
	other := func(s *c05Side) *c05Side {
		if s == I {
			return A
		}
		return I
	}
	nsent := 0
	// the application of one side answers every Logon it is shown with an order, from inside the callback: the
	// message is numbered while the session is in the middle of the logon
	sendOnLogon := ""
	if ch.Chance("sendonlogon", 1, 4) {
		sendOnLogon = []string{"I", "A"}[ch.Choose("sendonlogonside", 2)]
	}
	start := func(s *c05Side) {
		eng, err := NewEngine(env, w, s.cfg)
		if err != nil {
			env.Fatalf("engine %s: %v", s.name, err)
		}
		s.eng = eng
		side := s
		eng.App.OnCall = func(c AppCall) {
			if c.Kind == "FromAdmin" && c.Type == "A" && side.name == sendOnLogon && !eng.Dead {
				nsent++
				id := fmt.Sprintf("%s%d", side.name, nsent)
				if err := eng.Send("D", AppBody(id)); err == nil {
					side.sent = append(side.sent, id)
				}
				env.Stat("probe_send_from_logon_callback")
			}
			if c.Kind != "FromApp" {
				return
			}
			side.got = append(side.got, c.ID)
			side.gotSet[c.ID]++
			if side.gotSet[c.ID] > 1 {
				env.Violate("C05/delivered-twice", "side %s: application message %s delivered %d times", side.name, c.ID, side.gotSet[c.ID])
			}
		}
		if err := eng.Start(); err != nil {
			env.Fatalf("start %s: %v", s.name, err)
		}
	}
	adv := func(d time.Duration) { env.AdvanceNet(w, w.WriteSig, d) }
	// cut performs a link cut one stimulus at a time (R1): kept bytes, then EOF per side, settling between
	cut := func(l *simnet.Link, ka, kb int, rerr error) {
		l.CutBegin(ka, kb)
		if ch.Chance("writesfail", 1, 2) {
			// the writers see the reset too: their next Write fails instead of vanishing
			l.FailWrites(fmt.Errorf("write: broken pipe"))
			env.Stat("fault_write_error_after_cut")
		}
		for l.CutDeliverNext() {
			env.Settle()
		}
		l.CutFinish(0, rerr)
		env.Settle()
		l.CutFinish(1, rerr)
		env.Settle()
	}
	start(A)
	start(I)
	env.Cfg["engines"] = I.cfg.String() + " | " + A.cfg.String()
	env.Cfg["latency"] = w.Latency.String()
	env.OnCleanup(func() {
		env.simSeconds = time.Since(env.T0).Seconds()
		env.Freeze()
		w.SetRefuse(5001, false)
		for _, s := range []*c05Side{I, A} {
			s.eng.Dead = true
			s.eng.StopAsync()
		}
		for i := 0; i < 400 && !(I.eng.StopFinished() && A.eng.StopFinished()); i++ {
			for _, l := range w.Links {
				l.Cut(0, 0, nil)
			}
			time.Sleep(500 * time.Millisecond)
			env.Settle()
		}
		if !(I.eng.StopFinished() && A.eng.StopFinished()) {
			env.EngineStuck("engines did not stop within 200 simulated seconds of Stop() in teardown")
		}
		for _, s := range []*c05Side{I, A} {
			for _, st := range s.eng.SF.All {
				st.inner.Close()
			}
		}
	})
	adv(1200 * time.Millisecond)

	liveLink := func() *simnet.Link {
		for i := len(w.Links) - 1; i >= 0; i-- {
			if !w.Links[i].IsCut {
				return w.Links[i]
			}
		}
		return nil
	}
	// invariant: deliveries on each side are, in order, a subsequence-free prefix-compatible part of
	// what the other side submitted: nothing unknown, nothing out of submission order
	checkOrder := func() {
		for _, s := range []*c05Side{I, A} {
			src := other(s).sent
			j := 0
			for _, id := range s.got {
				for j < len(src) && src[j] != id {
					j++
				}
				if j == len(src) {
					known := false
					for _, x := range src {
						if x == id {
							known = true
						}
					}
					if !known {
						env.Violate("C05/unknown-message", "side %s: application saw %q which the other side never submitted successfully", s.name, id)
					} else {
						env.Violate("C05/out-of-order", "side %s: %q delivered out of submission order: delivered %v, submitted %v", s.name, id, tailStrs(s.got, 12), tailStrs(src, 12))
					}
					return
				}
				j++
			}
		}
	}
	faultsWithTraffic := 0
	inFlightOrQueued := func() bool {
		if l := liveLink(); l != nil && (l.A.InFlight() > 0 || l.B.InFlight() > 0) {
			return true
		}
		return len(I.got) < len(A.sent) || len(A.got) < len(I.sent)
	}
	halfOpenUntil := time.Time{}
	refuseUntil := time.Time{}
	steps := 15 + ch.Choose("steps", 66)
	for i := 0; i < steps && !env.Failed(); i++ {
		now := time.Now()
		if !halfOpenUntil.IsZero() && now.After(halfOpenUntil) {
			if l := liveLink(); l != nil {
				cut(l, 0, 0, nil)
				env.Note("half-open link cut")
				env.Settle()
			}
			halfOpenUntil = time.Time{}
		}
		if !refuseUntil.IsZero() && now.After(refuseUntil) {
			w.SetRefuse(5001, false)
			refuseUntil = time.Time{}
			env.Note("reconnects accepted again")
		}
		switch ch.Weighted("step", []int{20, 16, 8, 4, 4, 4, 3}) {
		case 0: // sends
			s := []*c05Side{I, A}[ch.Choose("sender", 2)]
			for k := 1 + ch.Choose("burst", 4); k > 0; k-- {
				nsent++
				id := fmt.Sprintf("%s%d", s.name, nsent)
				if err := s.eng.Send("D", AppBody(id)); err == nil {
					s.sent = append(s.sent, id)
				} else {
					env.Note("send %s refused: %v", id, err)
				}
			}
			env.Settle()
			env.Note("%s sends up to %s (link up=%v)", s.name, s.sent[len(s.sent)-1], liveLink() != nil)
			if ch.Chance("faultaftersend", 1, 3) {
				// fault right after the send returned, with the bytes still in flight
				if l := liveLink(); l != nil {
					fa, fb := l.A.InFlight(), l.B.InFlight()
					ka, kb := ch.Choose("keepA", fa+1), ch.Choose("keepB", fb+1)
					if inFlightOrQueued() {
						faultsWithTraffic++
					}
					cut(l, ka, kb, nil)
					env.Note("cut right after send: I->A keeps %d of %d in-flight bytes, A->I keeps %d of %d", ka, fa, kb, fb)
					env.Stat("fault_cut_with_loss")
					env.Settle() // one stimulus at a time: both sessions see the disconnect before anything else happens
				}
			}
		case 1: // time
			d := []time.Duration{5 * time.Millisecond, 50 * time.Millisecond, 300 * time.Millisecond, time.Second, 2500 * time.Millisecond}[ch.Choose("advance", 5)]
			adv(d)
		case 2: // cut
			if l := liveLink(); l != nil {
				fa, fb := l.A.InFlight(), l.B.InFlight()
				ka, kb := ch.Choose("keepA", fa+1), ch.Choose("keepB", fb+1)
				if inFlightOrQueued() {
					faultsWithTraffic++
				}
				var rerr error
				if ch.Chance("reset", 1, 4) {
					rerr = fmt.Errorf("connection reset by peer")
				}
				cut(l, ka, kb, rerr)
				env.Note("cut: I->A keeps %d of %d, A->I keeps %d of %d, error=%v", ka, fa, kb, fb, rerr != nil)
				env.Stat("fault_cut")
				env.Settle()
			}
		case 3: // half-open: one direction goes dead silently, cut later
			if l := liveLink(); l != nil && halfOpenUntil.IsZero() {
				ep := []*simnet.Endpoint{l.A, l.B}[ch.Choose("deadside", 2)]
				ep.SetDead()
				halfOpenUntil = now.Add(time.Duration(500+ch.Choose("halfopen_ms", 6000)) * time.Millisecond)
				if inFlightOrQueued() {
					faultsWithTraffic++
				}
				env.Note("half-open: writes of side %d vanish until %v", ep.Side(), halfOpenUntil.Sub(env.T0))
				env.Stat("fault_half_open")
			}
		case 4: // refuse reconnects for a while
			if refuseUntil.IsZero() {
				w.SetRefuse(5001, true)
				refuseUntil = now.Add(time.Duration(500+ch.Choose("refuse_ms", 5000)) * time.Millisecond)
				env.Note("reconnects refused until %v", refuseUntil.Sub(env.T0))
				env.Stat("fault_connect_refused")
			}
		case 5: // crash and restart on the persistent store
			if store != "file" {
				continue
			}
			s := []*c05Side{I, A}[ch.Choose("crashside", 2)]
			power := ch.Chance("powerloss", 1, 3)
			var img map[string][]byte
			if power {
				img = fsys.DurableSnapshot()
				env.Stat("fault_crash_power_loss")
			} else {
				img = fsys.Snapshot()
				env.Stat("fault_crash_process")
			}
			if inFlightOrQueued() {
				faultsWithTraffic++
			}
			fsys.ReplaceUnder(s.cfg.StoreDir+"/", img)
			for _, l := range w.Links {
				if !l.IsCut {
					cut(l, 0, 0, nil)
				}
			}
			old := s.eng
			old.Dead = true
			old.StopAsync()
			env.Settle() // the stop goroutine has run as far as it can before anyone looks at it
			for k := 0; k < 100 && !old.StopFinished(); k++ {
				adv(200 * time.Millisecond)
			}
			if !old.StopFinished() {
				env.EngineStuck("a discarded engine did not stop within 20 simulated seconds of Stop()")
			}
			s.restarts++
			start(s)
			env.Note("engine %s crashed (power loss=%v) and restarted on its store", s.name, power)
			// the new session loop only starts serving at the next whole second: nothing is delivered
			// to it before, or several events would be waiting for it at once (R1)
			env.Advance(1100 * time.Millisecond)
		case 6: // orderly stop (the engine logs out) and recreation on the persistent store
			if store != "file" {
				continue
			}
			s := []*c05Side{I, A}[ch.Choose("stopside", 2)]
			if inFlightOrQueued() {
				faultsWithTraffic++
			}
			old := s.eng
			// a send in flight across the stop: the link is down, an application goroutine is inside SendToTarget
			// (its ToApp callback takes 1.5 s) when Stop is called. Whatever Stop does about it, a send that RETURNS
			// nil was accepted and must be delivered - also when the engine recreated on the store has numbered
			// messages of its own by then.
			var inFlightErr chan error
			inFlightID := ""
			if ch.Chance("sendacrossstop", 1, 3) {
				for _, l := range w.Links {
					if !l.IsCut {
						cut(l, 0, 0, nil)
					}
				}
				env.Settle()
				nsent++
				inFlightID = fmt.Sprintf("%s%d", s.name, nsent)
				slowID := inFlightID
				old.App.RefuseToApp = func(c AppCall) bool {
					if c.ID == slowID && !c.PossDup {
						simsync.SleepHoldingLocks(1500*time.Millisecond + 173*time.Microsecond)
					}
					return false
				}
				inFlightErr = make(chan error, 1)
				eng, id := old, inFlightID
				go func() { inFlightErr <- eng.Send("D", AppBody(id)) }()
				env.Settle()
				env.Stat("fault_send_in_flight_across_stop")
			}
			old.StopAsync()
			env.Settle()
			// what is in flight keeps arriving while the engine logs out
			for k := 0; k < 100 && !old.StopFinished(); k++ {
				adv(200 * time.Millisecond)
			}
			if !old.StopFinished() {
				env.EngineStuck("an engine did not stop within 20 simulated seconds of Stop()")
			}
			old.Dead = true
			for _, l := range w.Links {
				if !l.IsCut {
					cut(l, 0, 0, nil)
				}
			}
			env.Settle()
			s.restarts++
			start(s)
			if inFlightErr != nil {
				// nothing else is submitted on this side until the send has returned (submission order stays unambiguous)
				var err error
				done := false
				for k := 0; k < 20 && !done; k++ {
					select {
					case err = <-inFlightErr:
						done = true
					default:
						adv(200 * time.Millisecond)
					}
				}
				if !done {
					env.EngineStuck("a SendToTarget that was in flight when the engine was stopped has not returned 4 simulated seconds later")
				}
				if err == nil {
					s.sent = append(s.sent, inFlightID)
					env.Stat("probe_send_in_flight_across_stop_accepted")
				} else {
					env.Note("send %s in flight across the stop refused: %v", inFlightID, err)
					env.Stat("probe_send_in_flight_across_stop_refused")
				}
			}
			env.Note("engine %s stopped in an orderly way and was recreated on its store", s.name)
			env.Stat("fault_orderly_stop_and_restart")
			env.Advance(1100 * time.Millisecond)
		}
		checkOrder()
		env.State(fmt.Sprintf("linkup=%v pendingI=%v pendingA=%v", liveLink() != nil, len(A.got) < len(I.sent), len(I.got) < len(A.sent)))
	}
	if env.Failed() {
		return
	}
	// ---- faults stop; the link stays up with honest delivery for the settle period ----
	w.SetRefuse(5001, false)
	if !halfOpenUntil.IsZero() {
		if l := liveLink(); l != nil {
			cut(l, 0, 0, nil)
		}
	}
	maxT := 2.4 * float64(hb)
	for _, v := range []float64{float64(I.cfg.LogonTimeout), float64(I.cfg.LogoutTimeout), float64(I.cfg.ReconnectInterval)} {
		if v > maxT {
			maxT = v
		}
	}
	settle := time.Duration((3*maxT + 6*float64(hb)) * float64(time.Second))
	deadline := time.Now().Add(settle)
	done := func() bool { return len(I.got) == len(A.sent) && len(A.got) == len(I.sent) }
	for time.Now().Before(deadline) && !done() && !env.Failed() {
		adv(250 * time.Millisecond)
	}
	checkOrder()
	if env.Failed() {
		return
	}
	for _, s := range []*c05Side{I, A} {
		src := other(s).sent
		if len(s.got) != len(src) {
			env.Violate("C05/not-delivered", "side %s saw %d of the %d application messages the other side sent, %v after the last fault (HeartBtInt %ds): missing from %v", s.name, len(s.got), len(src), settle, hb, firstMissing(src, s.gotSet))
			return
		}
		for i := range src {
			if s.got[i] != src[i] {
				env.Violate("C05/out-of-order", "side %s: delivery %d is %s, submitted %s", s.name, i, s.got[i], src[i])
				return
			}
		}
	}
	_ = sides
	env.Nontrivial = faultsWithTraffic > 0 && len(I.got) > 0 && len(A.got) > 0
	env.StatN("probe_faults_with_traffic", faultsWithTraffic)
	env.StatN("probe_restarts", I.restarts+A.restarts)
}

func tailStrs(s []string, n int) []string {
	if len(s) > n {
		return s[len(s)-n:]
	}
	return s
}

func firstMissing(src []string, got map[string]int) string {
	for _, id := range src {
		if got[id] == 0 {
			return id
		}
	}
	return ""
}


// c05StrandedFrames is the one situation the two-engine network cannot produce (it delivers one chunk per step):
// the initiator ends a session ITSELF while complete frames of the counterparty are already waiting behind the
// message that made it do so - nobody will ever take them from the reader. A real initiator against the stub
// counterparty: logon, then one read carrying a session-ending message followed by 2-4 more frames. What C05
// promises afterwards is that the link comes back: the initiator dials again (within three reconnect intervals
// after its logout wait), logs on, and a message sent then is delivered exactly once. Which ready source the
// session loop serves first while the frames wait is decided by the simulator (select gate).
func c05StrandedFrames(env *Env) {
	ch := env.Ch
	c := DrawBaseCfg(env)
	c.Initiator = true
	c.ReconnectInterval = 5 + ch.Choose("reconnect", 4)
	c.LogonTimeout = 4
	c.LogoutTimeout = []int{2, 1, 3}[ch.Choose("logouttimeout", 3)]
	hb := []int{30, 5, 10}[ch.Choose("hb", 3)]
	c.HeartBtInt = hb
	if ch.Chance("filestore", 1, 2) {
		c.Store, c.StoreDir = "file", "/c05/S"
	}
	orders := [][]int{{2, 3, 1, 0, 4}, {3, 2, 1, 0, 4}, {0, 2, 3, 1, 4}, {1, 2, 3, 0, 4}}
	simsync.SetSelectOrder(orders[ch.Choose("selectorder", len(orders))])
	env.OnCleanup(func() { simsync.SetSelectOrder(nil) })
	s := StartSut(env, c)
	p := s.P
	if _, ok := s.Logon(hb, false); !ok {
		env.Fatalf("logon failed: %v", summarize(p.Recv))
	}
	rounds := 1 + ch.Choose("rounds", 3)
	delivered := func(id string) int {
		n := 0
		for _, a := range s.E.App.Snapshot() {
			if a.Kind == "FromApp" && a.ID == id {
				n++
			}
		}
		return n
	}
	for r := 0; r < rounds && !env.Failed(); r++ {
		// some ordinary traffic first
		for i := ch.Choose("before", 3); i > 0; i-- {
			id := p.NextID()
			p.Send("D", AppBody(id), MsgOpt{})
			if delivered(id) != 1 {
				env.Violate("C05/not-delivered", "in-sequence application message %s delivered %d times on an established session", id, delivered(id))
				return
			}
		}
		var burst []byte
		kind := ch.Choose("ender", 4)
		var x []byte
		switch kind {
		case 0: // the counterparty logs out
			x, _ = p.Build("5", nil, MsgOpt{})
		case 1: // wrong TargetCompID: Reject + Logout
			wrong := "NOBODY"
			x, _ = p.Build("D", AppBody(p.NextID()), MsgOpt{Target: &wrong})
		case 2: // stale SendingTime: Reject + Logout
			x, _ = p.Build("D", AppBody(p.NextID()), MsgOpt{TimeDelta: -10 * time.Minute})
		case 3: // wrong BeginString: Logout
			b := "FIX.4.0"
			if c.BeginString == b {
				b = "FIX.4.1"
			}
			x, _ = p.Build("D", AppBody(p.NextID()), MsgOpt{Begin: &b})
		}
		burst = append(burst, x...)
		behind := 2 + ch.Choose("behind", 3)
		for i := 0; i < behind; i++ {
			y, _ := p.Build("D", AppBody(p.NextID()), MsgOpt{})
			burst = append(burst, y...)
		}
		env.Note("round %d: session-ending message (kind %d) and %d frames behind it in one read", r, kind, behind)
		env.Stat("fault_frames_stranded_behind_session_end")
		env.Rec(fmt.Sprintf("peer>:%d", p.Conn), "peer>", string(burst), true)
		p.EP.Feed(burst)
		env.Settle()
		// an honest counterparty answers a Logout with a Logout and hangs up; give the engine its logout wait
		env.Advance(300 * time.Millisecond)
		p.Collect()
		if lo, ok := LastOfType(p.Recv, "5"); ok && lo.Conn == p.Conn && kind != 0 && p.Connected() {
			z, _ := p.Build("5", nil, MsgOpt{})
			p.EP.Feed(z)
			env.Settle()
		}
		env.Advance(time.Duration(c.LogoutTimeout)*time.Second + 500*time.Millisecond)
		p.Collect()
		if p.Connected() {
			p.Drop()
		}
		p.EP = nil
		if s.E.App.LoggedOn() {
			env.Advance(2 * time.Second)
		}
		// "... once the link stays up": it has to come up first
		wait := time.Duration(3*c.ReconnectInterval+c.LogonTimeout) * time.Second
		if !p.Connect(wait) {
			env.Violate("C05/initiator-does-not-dial-again", "the initiator ended its session with %d complete frames of the counterparty waiting behind the message that ended it, and has not dialled again %v later (ReconnectInterval %d s)", behind, wait, c.ReconnectInterval)
			return
		}
		env.Stat("probe_initiator_dialled_again_after_stranded_frames")
		lg, ok := LastOfType(p.Recv, "A")
		if !ok || lg.Conn != p.Conn {
			env.Violate("C05/initiator-does-not-dial-again", "the new connection carries no Logon of the initiator")
			return
		}
		// numbers: the session-ending message and the frames behind it were never consumed; an honest counterparty
		// continues where the engine says it is (it would replay on request; here it simply renumbers from there)
		p.OutSeq = NewAdv(s, hb, AdvOpts{}).engT()
		p.Send("A", p.LogonBody(hb, false), MsgOpt{})
		if !p.Connected() || !s.E.App.LoggedOn() {
			env.Violate("C05/session-does-not-come-back", "the initiator dialled again but the logon did not complete: %s", summarize(p.Recv[len(p.Recv)-min(4, len(p.Recv)):]))
			return
		}
		id := p.NextID()
		p.Send("D", AppBody(id), MsgOpt{})
		if n := delivered(id); n != 1 {
			env.Violate("C05/not-delivered", "application message %s sent on the re-established session was delivered %d times", id, n)
			return
		}
		env.Nontrivial = true
	}
}
