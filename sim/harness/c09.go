package harness

import (
	"math"
	"bytes"
	"fmt"
	"strconv"
	"strings"
	"time"

	"verifsim/wire"
)

// C09 — no bytes from the wire can crash the engine (session half).
//
// Fault: in-flight corruption of live traffic between the stub peer and the engine, in every
// session state. Oracle: the worker process survives (a panic on an engine goroutine kills it; the
// runner confirms by re-running the seed in a fresh process), nothing spins (watchdog), recovered
// panics are still panics, and liveness: after the garbage an in-sequence TestRequest is answered, or
// the session ended the connection and a fresh connection logs on and answers one.

func init() {
	Register(&Property{ID: "C09", Run: runC09,
		Rule: "one real engine under the adversarial workload; 30-70% of the peer's frames are corrupted in flight (bit flips, byte deletion/insertion/duplication, field deletion/duplication/reordering, empty values, BodyLength huge/negative/zero/off-by-one, truncation, XMLData length/value mismatch, garbage between frames, corrupted first message of a connection), with and without dictionaries (FIX42, FIX44, FIXT11+FIX50SP2), both roles; liveness probe after the garbage; riding along (no schedule or fault of their own): every corrupted frame and truncations of it through ParseMessage(+dictionaries) and the typed accessors incl. GetGroup, damaged settings text through ParseSettings, damaged and hand-made odd dictionary XML through datadictionary.ParseSrc, acceptors/initiators built from absurd setting values; dictionaries that load are validated against; tasks sharing one message under the cooperative scheduler (codec locks as scheduling points). Non-trivial: at least 3 corrupted frames reached the engine and a liveness probe succeeded afterwards; distinct: canonical trace hash"})
}

func corruptFrame(env *Env, b []byte) []byte {
	ch := env.Ch
	out := append([]byte(nil), b...)
	fields := bytes.Split(bytes.TrimSuffix(out, []byte{1}), []byte{1})
	join := func(f [][]byte) []byte { return append(bytes.Join(f, []byte{1}), 1) }
	kind := ch.Choose("corruption", 19)
	env.Stat("fault_corrupt_" + []string{"bitflip", "delbyte", "insbyte", "dupbytes", "delfield", "dupfield", "swapfields", "emptyvalue",
		"bodylen_huge", "bodylen_negative", "bodylen_offbyone", "truncate", "xmldata", "garbage_prefix", "bodylen_zero", "nonnumeric_tag", "extreme_integer", "xml_swallows_trailer_then_group", "group_count_lies"}[kind])
	switch kind {
	case 0:
		i := ch.Choose("pos", len(out))
		out[i] ^= 1 << uint(ch.Choose("bit", 8))
	case 1:
		i := ch.Choose("pos", len(out))
		out = append(out[:i], out[i+1:]...)
	case 2:
		i := ch.Choose("pos", len(out))
		c := []byte{0, 1, '=', '8', 0xff, '\n'}[ch.Choose("byte", 6)]
		out = append(out[:i], append([]byte{c}, out[i:]...)...)
	case 3:
		i := ch.Choose("pos", len(out))
		n := 1 + ch.Choose("len", 12)
		if i+n > len(out) {
			n = len(out) - i
		}
		out = append(out[:i+n], out[i:]...)
	case 4:
		if len(fields) > 1 {
			i := ch.Choose("field", len(fields))
			fields = append(fields[:i], fields[i+1:]...)
			out = join(fields)
		}
	case 5:
		i := ch.Choose("field", len(fields))
		fields = append(fields[:i+1], fields[i:]...)
		out = join(fields)
	case 6:
		i, j := ch.Choose("field", len(fields)), ch.Choose("field2", len(fields))
		fields[i], fields[j] = fields[j], fields[i]
		out = join(fields)
	case 7:
		i := ch.Choose("field", len(fields))
		if eq := bytes.IndexByte(fields[i], '='); eq >= 0 {
			fields[i] = fields[i][:eq+1]
		}
		out = join(fields)
	case 8, 9, 10, 14:
		for i, f := range fields {
			if bytes.HasPrefix(f, []byte("9=")) {
				n, _ := strconv.Atoi(string(f[2:]))
				switch kind {
				case 8:
					fields[i] = []byte("9=" + []string{"99999", "2147483648", "99999999999999999999", "9223372036854775807", "9223372036854775000", "4611686018427387904"}[ch.Choose("huge", 6)])
				case 9:
					fields[i] = []byte("9=-" + strconv.Itoa(n))
				case 10:
					fields[i] = []byte("9=" + strconv.Itoa(n+1-2*ch.Choose("dir", 2)))
				case 14:
					fields[i] = []byte("9=0")
				}
				break
			}
		}
		out = join(fields)
	case 11:
		out = out[:1+ch.Choose("cut", len(out)-1)]
	case 12:
		// XMLData (212 length, 213 value) with a mismatching length, placed in the header; some of the
		// lengths make the data field end inside or right at the trailer
		// ... or one of the other length/data pairs (RawData, Signature, SecureData, EncodedText)
		pair := [][2]string{{"212", "213"}, {"212", "213"}, {"95", "96"}, {"93", "89"}, {"90", "91"}, {"354", "355"}}[ch.Choose("datapair", 6)]
		lt, dt := pair[0], pair[1]
		ins := [][]byte{[]byte(lt + "=0"), []byte(dt + "=<a>\x01</a>")}
		at := 3
		if lt != "212" {
			at = len(fields) - 1 // body/trailer data fields go towards the end
		}
		if at > len(fields) {
			at = len(fields)
		}
		if ch.Chance("xmlattail", 1, 2) && len(fields) > 1 {
			// directly in front of the trailer, value without SOH: the length decides whether the data
			// field ends before, at, or inside the CheckSum field
			at = len(fields) - 1
			ins[1] = []byte(dt + "=abc")
		}
		fields = append(fields[:at], append(ins, fields[at:]...)...)
		tmp := join(fields)
		rest := len(tmp) - (bytes.Index(tmp, []byte("\x01"+dt+"=")) + 2 + len(dt))
		ln := []string{"5", "0", "-1", "500", "x", strconv.Itoa(rest), strconv.Itoa(rest - 1), strconv.Itoa(rest - 2), strconv.Itoa(rest - 4), strconv.Itoa(rest - 7), strconv.Itoa(rest - 8), strconv.Itoa(rest + 1), "9223372036854775807", "9223372036854775800"}[ch.Choose("xmllen", 14)]
		fields[at] = []byte(lt + "=" + ln)
		out = join(fields)
	case 13:
		g := [][]byte{[]byte("garbage"), []byte("8=FIX"), []byte("\x01\x01\x0110="), []byte("8=\x019=\x01"), {0, 0xff, 0xfe}}[ch.Choose("garbage", 5)]
		out = append(append([]byte(nil), g...), out...)
	case 15:
		i := ch.Choose("field", len(fields))
		fields[i] = append([]byte("x"), fields[i]...)
		out = join(fields)
	case 17:
		// the data field swallows the SOH and the "10=" in front of what then looks like a group count
		// field at the very end of the message (matters with an application dictionary)
		if len(fields) > 1 {
			grp := []string{"453=1", "78=2", "146=1", "268=3", "555=1"}[ch.Choose("grouptag", 5)]
			tail := [][]byte{[]byte("212=6"), []byte("213=xx"), []byte("10=4" + grp)}
			fields = append(fields[:len(fields)-1], tail...)
			out = join(fields)
		}
	case 18:
		// a repeating group whose count field lies (negative, zero, too small, too large, not a number),
		// placed in front of the trailer; the envelope is repaired below in half of the cases
		if len(fields) >= 3 {
			g := [][]string{{"268", "269=0", "270=1.5", "271=5"}, {"453", "448=PTY", "447=D", "452=1"}, {"146", "55=SYM", "65=X"}, {"78", "79=ACC", "80=10"}, {"267", "269=0"}}[ch.Choose("grouptag", 5)]
			cnt := []string{"-1", "0", "1", "3", "99999", "-9223372036854775808", "x", "", "2147483648"}[ch.Choose("groupcount", 9)]
			ins := [][]byte{[]byte(g[0] + "=" + cnt)}
			for k := ch.Choose("groupinstances", 4); k > 0; k-- {
				for _, e := range g[1:] {
					ins = append(ins, []byte(e))
				}
			}
			tail := append(ins, fields[len(fields)-1])
			fields = append(append([][]byte(nil), fields[:len(fields)-1]...), tail...)
			out = join(fields)
		}
	case 16:
		// an integer field (sequence numbers, ranges, intervals) with an extreme value
		var nums []int
		for i, f := range fields {
			if eq := bytes.IndexByte(f, '='); eq > 0 && eq < len(f)-1 && !bytes.HasPrefix(f, []byte("8=")) && !bytes.HasPrefix(f, []byte("9=")) && !bytes.HasPrefix(f, []byte("10=")) {
				digits := true
				for _, c := range f[eq+1:] {
					if c < '0' || c > '9' {
						digits = false
					}
				}
				if digits {
					nums = append(nums, i)
				}
			}
		}
		if len(nums) > 0 {
			i := nums[ch.Choose("numfield", len(nums))]
			eq := bytes.IndexByte(fields[i], '=')
			v := []string{"-9223372036854775807", "9223372036854775807", "-1", "0", "99999999999999999999999", "-2147483648", "4294967296"}[ch.Choose("extreme", 7)]
			fields[i] = append(append([]byte(nil), fields[i][:eq+1]...), v...)
			out = join(fields)
			// keep the frame well-formed so that the value reaches the session logic
			if i9 := bytes.Index(out, []byte("\x019=")); i9 >= 0 {
				e9 := i9 + 3 + bytes.IndexByte(out[i9+3:], 1)
				if i10 := bytes.LastIndex(out, []byte("\x0110=")); i10 > e9 {
					out = append(append(append([]byte(nil), out[:i9+3]...), strconv.Itoa(i10-e9)...), out[e9:]...)
				}
			}
			if i := bytes.LastIndex(out, []byte("\x0110=")); i >= 0 {
				return wire.Seal(out[:i+1])
			}
		}
	}
	// Half of the time repair the envelope (BodyLength and CheckSum) so that the damage is not caught
	// by the length check and reaches the session logic; otherwise at most the checksum is made consistent.
	lengthKinds := kind == 8 || kind == 9 || kind == 10 || kind == 14 || kind == 11
	if !lengthKinds && ch.Chance("repairenvelope", 1, 2) {
		if i9 := bytes.Index(out, []byte("\x019=")); i9 >= 0 {
			if k := bytes.IndexByte(out[i9+3:], 1); k >= 0 {
				e9 := i9 + 3 + k
				if i10 := bytes.LastIndex(out, []byte("\x0110=")); i10 >= e9 {
					out = append(append(append([]byte(nil), out[:i9+3]...), strconv.Itoa(i10-e9)...), out[e9:]...)
				}
			}
		}
		if i := bytes.LastIndex(out, []byte("\x0110=")); i >= 0 {
			out = wire.Seal(out[:i+1])
		}
		env.Stat("probe_corrupted_with_valid_envelope")
		return out
	}
	if ch.Chance("resum", 1, 2) {
		if i := bytes.LastIndex(out, []byte("\x0110=")); i >= 0 {
			out = wire.Seal(out[:i+1])
		}
	}
	return out
}

func runC09(env *Env, tier string) {
	ch := env.Ch
	c := DrawBaseCfg(env)
	hb := []int{30, 5}[ch.Choose("hb", 2)]
	c.HeartBtInt = hb
	switch ch.Weighted("dict", []int{5, 1, 1, 1}) {
	case 1:
		c.BeginString, c.DataDict = "FIX.4.2", "/repo/spec/FIX42.xml"
	case 2:
		c.BeginString, c.DataDict = "FIX.4.4", "/repo/spec/FIX44.xml"
	case 3:
		c.BeginString, c.TransportDD, c.AppDD = "FIXT.1.1", "/repo/spec/FIXT11.xml", "/repo/spec/FIX50SP2.xml"
	}
	if ch.Chance("chunk", 1, 3) {
		c.ChunkSize = 1 + ch.Choose("chunksize", 3)
	}
	if c.BeginString >= "FIX.4.4" && ch.Chance("nextexpectedoption", 1, 5) {
		// rarely used option with states of its own (a recovery nobody asked for): tag 789 in both Logons
		c.Extra = map[string]string{"EnableNextExpectedMsgSeqNum": "Y"}
		env.Stat("probe_next_expected_option")
	}
	if ch.Chance("textprobe", 1, 4) {
		c09TextProbe(env)
		if env.Failed() {
			return
		}
		c09FactoryProbe(env)
		if env.Failed() {
			return
		}
	}
	if ch.Chance("sharedmessageprobe", 1, 4) {
		c09SharedMessageProbe(env)
		if env.Failed() {
			return
		}
	}
	s := StartSut(env, c)
	p := s.P
	rate := 3 + ch.Choose("rate", 5) // tenths
	corrupted := 0
	a := NewAdv(s, hb, AdvOpts{AllowCuts: true, AllowSends: true})
	a.o.Corrupt = func(b []byte) []byte {
		if ch.Choose("corrupt?", 10) < rate {
			corrupted++
			p.Bytewise = true // framing on this connection may be damaged from here on
			cb := corruptFrame(env, b)
			if !env.Failed() {
				c09APIProbe(env, cb, corrupted*7919)
			}
			return cb
		}
		return b
	}
	honest := NewAdv(s, hb, AdvOpts{HonestLogon: true})
	probes := 0
	probe := func(when string) {
		// recovered panics are still panics
		if n := s.E.LF.EventsContaining("Panic"); n > 0 {
			env.Violate("C09/panic-recovered", "the engine recovered from a panic while handling a connection (%d log events)", n)
			return
		}
		if T := a.engT(); T >= math.MaxInt-64 || T <= math.MinInt+64 {
			// A (well-formed) SequenceReset has moved the expected number to the end of the int range: no
			// message can carry the number after it, so "the next well-formed message" does not exist.
			// (The engine's counter wraps to MinInt there - recorded in DESIGN.md 8.7, not judged here.)
			env.Stat("probe_expected_number_at_int_limit")
			return
		}
		try := func() bool {
			if !p.Connected() {
				return false
			}
			id := "LIVE" + p.NextID()
			T := a.engT()
			o := MsgOpt{Seq: T, PossDup: true}
			if T >= p.OutSeq {
				o.Advance = true
			}
			b, _ := p.Build("1", []wire.Field{wire.F(112, id)}, o)
			for _, x := range p.SendRaw(b, o) {
				if x.Type() == "0" && x.Str(112) == id {
					return true
				}
			}
			return false
		}
		if try() {
			probes++
			env.Stat("probe_alive_same_connection")
			return
		}
		// The garbage may legitimately have broken framing (a huge BodyLength swallows what follows) or
		// made the session log out. A fresh connection must work.
		for attempt := 0; attempt < 3; attempt++ {
			if p.Connected() {
				p.Drop()
			}
			p.EP = nil
			env.Advance(time.Duration(2*attempt+1) * time.Second)
			if s.E.stopped {
				return
			}
			if !honest.ensureSession() {
				continue
			}
			if try() {
				probes++
				env.Stat("probe_alive_fresh_connection")
				return
			}
		}
		env.Violate("C09/session-dead", "%s: after garbage neither the live connection nor three fresh connections get a TestRequest answered (T=%d S=%d)", when, a.engT(), a.engS())
	}
	steps := 10 + ch.Choose("steps", 60)
	for i := 0; i < steps && !env.Failed(); i++ {
		before := corrupted
		label := a.Step()
		if corrupted > before && ch.Chance("probe", 1, 3) {
			probe("after " + label)
		}
	}
	if !env.Failed() {
		probe("end of run")
	}
	env.StatN("probe_corrupted_frames", corrupted)
	env.Nontrivial = corrupted >= 3 && probes > 0
	env.State(fmt.Sprintf("dict=%v probes>0=%v", c.DataDict != "" || c.AppDD != "", probes > 0))
	_ = strings.Contains
}
