package harness

import (
	"fmt"
	"sync"
	"time"

	"github.com/quickfixgo/quickfix/verifsim/simnet"

	"verifsim/wire"
)

// ConnRec records, at write time, everything an engine writes on one connection ("the wire"),
// and the close. Event numbers are global, so writes can be ordered against callbacks and store calls
// where they are causally ordered.
type ConnRec struct {
	ID     int
	EP     *simnet.Endpoint
	Owner  string // engine name
	OpenN  int
	mu     sync.Mutex
	Writes []WireRec
	CloseN int
	ClosedAt time.Time
	cursor int // Peer.Collect's read position
}

type WireRec struct {
	N     int
	At    time.Time
	Frame []byte
	Msg   wire.Msg
	OK    bool // frame scanned
}

type ConnLog struct {
	env   *Env
	mu    sync.Mutex
	Conns []*ConnRec
	byEP  map[*simnet.Endpoint]*ConnRec
	// OwnerOf decides which engine owns an endpoint (nil: single engine "E").
	OwnerOf func(ep *simnet.Endpoint) string
}

func NewConnLog(env *Env, w *simnet.World) *ConnLog {
	cl := &ConnLog{env: env, byEP: map[*simnet.Endpoint]*ConnRec{}}
	w.OnEndpoint = cl.attach
	return cl
}

func (cl *ConnLog) attach(ep *simnet.Endpoint) {
	cl.mu.Lock()
	owner := "E"
	if cl.OwnerOf != nil {
		owner = cl.OwnerOf(ep)
	}
	cr := &ConnRec{ID: len(cl.Conns) + 1, EP: ep, Owner: owner}
	cl.Conns = append(cl.Conns, cr)
	cl.byEP[ep] = cr
	cl.mu.Unlock()
	stream := fmt.Sprintf("wire:%s:%d", owner, cr.ID)
	cr.OpenN = cl.env.Rec(stream, "open", "", true)
	ep.OnWrite = func(_ *simnet.Endpoint, b []byte) {
		m, err := wire.Scan(b)
		n := cl.env.Rec(stream, "engine>", string(b), true)
		cr.mu.Lock()
		cr.Writes = append(cr.Writes, WireRec{N: n, At: time.Now(), Frame: b, Msg: m, OK: err == nil})
		cr.mu.Unlock()
	}
	ep.OnClose = func(_ *simnet.Endpoint) {
		n := cl.env.Rec(stream, "close", "", true)
		cr.mu.Lock()
		cr.CloseN = n
		cr.ClosedAt = time.Now()
		cr.mu.Unlock()
	}
}

func (cl *ConnLog) Of(ep *simnet.Endpoint) *ConnRec {
	cl.mu.Lock()
	defer cl.mu.Unlock()
	return cl.byEP[ep]
}

func (cl *ConnLog) All() []*ConnRec {
	cl.mu.Lock()
	defer cl.mu.Unlock()
	return append([]*ConnRec(nil), cl.Conns...)
}

func (cr *ConnRec) Snapshot() ([]WireRec, int) {
	cr.mu.Lock()
	defer cr.mu.Unlock()
	return append([]WireRec(nil), cr.Writes...), cr.CloseN
}
