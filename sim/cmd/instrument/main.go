// Command instrument reads the CURRENT working tree of the repository under test and writes a Go
// build overlay (-overlay) plus the generated files it refers to. Nothing in the repository is
// modified. What the overlay does:
//
//  1. adds the shim packages verifsim/simnet, verifsim/simos, verifsim/simsync to the module;
//  2. dialer.go: import "net" -> verifsim/simnet (the initiator's only dial path);
//  3. store/file/*.go (non-test): import "os" -> verifsim/simos;
//  4. in the session/engine files of package quickfix and in store/file: X.Lock()/Unlock()/RLock()/
//     RUnlock() statements (also deferred) on sync mutexes become simsync.Lock(&X) etc., and every
//     comm clause of a blocking select gets a simsync.Wake("<file>:<func>") at its top;
//  5. adds verif_export.go to package quickfix (parser access for C12, state name for diagnostics).
//
// usage: instrument -repo /repo -shims /verif/sim/shims -out <scratch dir>
package main

import (
	"bytes"
	"encoding/json"
	"flag"
	"fmt"
	"go/ast"
	"go/format"
	"go/parser"
	"go/token"
	"os"
	"path/filepath"
	"sort"
	"strconv"
	"strings"
)

const modPath = "github.com/quickfixgo/quickfix"

// Files of package quickfix whose locks/selects are instrumented. The codec files are excluded:
// their per-message locks are hot and never shared between tasks.
var lockSkip = map[string]bool{
	"message.go": true, "repeating_group.go": true,
	"message_router.go": true, "tls.go": true,
	// the write loop's queue lock is held for a few statements with no scheduling point inside; its two
	// goroutines are not tasks of the cooperative scheduler
	"connection.go": true,
}

// Files whose mutexes are pointers (passed as they are, not by address). field_map.go's per-message
// locks are scheduling points only for a scheduler with CodecLocks (simsync.forSite).
var ptrLocks = map[string]bool{"field_map.go": true}

func main() {
	repo := flag.String("repo", "/repo", "repository root")
	shims := flag.String("shims", "", "directory holding simnet/ simos/ simsync/")
	out := flag.String("out", "", "output directory (scratch)")
	flag.Parse()
	if *shims == "" || *out == "" {
		fmt.Fprintln(os.Stderr, "instrument: -shims and -out are required")
		os.Exit(2)
	}
	ov := map[string]string{}
	must(os.MkdirAll(*out, 0o755))

	// 1. shim packages
	for _, pkg := range []string{"simnet", "simos", "simsync"} {
		ents, err := os.ReadDir(filepath.Join(*shims, pkg))
		must(err)
		for _, e := range ents {
			if strings.HasSuffix(e.Name(), ".go") && !strings.HasSuffix(e.Name(), "_test.go") {
				ov[filepath.Join(*repo, "verifsim", pkg, e.Name())] = filepath.Join(*shims, pkg, e.Name())
			}
		}
	}

	// 2..4 per-file rewrites
	rootFiles, err := filepath.Glob(filepath.Join(*repo, "*.go"))
	must(err)
	sort.Strings(rootFiles)
	for _, f := range rootFiles {
		base := filepath.Base(f)
		if strings.HasSuffix(base, "_test.go") {
			continue
		}
		r := &rewriter{file: f, base: base}
		if base == "dialer.go" {
			r.importMap = map[string]string{"net": modPath + "/verifsim/simnet"}
		}
		if !lockSkip[base] {
			r.locks = true
			r.skew = true
		}
		if r.importMap == nil && !r.locks {
			continue
		}
		changed, src := r.run()
		if changed {
			dst := filepath.Join(*out, "root_"+base)
			must(os.WriteFile(dst, src, 0o644))
			ov[f] = dst
		}
	}
	// internal/event_timer.go: timer skew only
	{
		f := filepath.Join(*repo, "internal", "event_timer.go")
		if _, err := os.Stat(f); err == nil {
			r := &rewriter{file: f, base: "event_timer.go", skew: true}
			changed, src := r.run()
			if changed {
				dst := filepath.Join(*out, "internal_event_timer.go")
				must(os.WriteFile(dst, src, 0o644))
				ov[f] = dst
			}
		}
	}
	storeFiles, err := filepath.Glob(filepath.Join(*repo, "store", "file", "*.go"))
	must(err)
	sort.Strings(storeFiles)
	for _, f := range storeFiles {
		base := filepath.Base(f)
		if strings.HasSuffix(base, "_test.go") {
			continue
		}
		r := &rewriter{file: f, base: base, importMap: map[string]string{"os": modPath + "/verifsim/simos"}, locks: true}
		changed, src := r.run()
		if changed {
			dst := filepath.Join(*out, "storefile_"+base)
			must(os.WriteFile(dst, src, 0o644))
			ov[f] = dst
		}
	}

	// 5. export file
	exp := filepath.Join(*out, "verif_export.go")
	must(os.WriteFile(exp, []byte(exportSrc), 0o644))
	ov[filepath.Join(*repo, "verif_export.go")] = exp

	b, _ := json.MarshalIndent(map[string]any{"Replace": ov}, "", " ")
	must(os.WriteFile(filepath.Join(*out, "overlay.json"), b, 0o644))
}

func must(err error) {
	if err != nil {
		fmt.Fprintln(os.Stderr, "instrument:", err)
		os.Exit(2)
	}
}

const exportSrc = `package quickfix

import "io"

// VerifParser exposes the stream parser to the verification harness (overlay-only file).
type VerifParser struct{ p *parser }

func NewVerifParser(r io.Reader) *VerifParser { return &VerifParser{p: newParser(r)} }

func (v *VerifParser) ReadMessage() ([]byte, error) {
	b, err := v.p.ReadMessage()
	if err != nil {
		return nil, err
	}
	return b.Bytes(), nil
}
`

type rewriter struct {
	file      string
	base      string
	importMap map[string]string
	locks     bool
	skew      bool // wrap timer durations with simsync.Skew

	fset      *token.FileSet
	changed   bool
	needSync  bool
	funcStack []string
}

func (r *rewriter) run() (bool, []byte) {
	r.fset = token.NewFileSet()
	af, err := parser.ParseFile(r.fset, r.file, nil, parser.ParseComments)
	must(err)

	for _, im := range af.Imports {
		p, _ := strconv.Unquote(im.Path.Value)
		if np, ok := r.importMap[p]; ok {
			name := filepath.Base(p)
			if im.Name != nil {
				name = im.Name.Name
			}
			im.Name = ast.NewIdent(name)
			im.Path.Value = strconv.Quote(np)
			r.changed = true
		}
	}

	if r.locks {
		for _, d := range af.Decls {
			fd, ok := d.(*ast.FuncDecl)
			if !ok || fd.Body == nil {
				continue
			}
			name := fd.Name.Name
			r.funcStack = []string{name}
			r.block(fd.Body)
		}
	}

	if r.skew {
		ast.Inspect(af, func(n ast.Node) bool {
			ce, ok := n.(*ast.CallExpr)
			if !ok {
				return true
			}
			se, ok := ce.Fun.(*ast.SelectorExpr)
			if !ok {
				return true
			}
			wrap := func(i int) {
				if i < len(ce.Args) {
					if inner, ok := ce.Args[i].(*ast.CallExpr); ok {
						if ise, ok := inner.Fun.(*ast.SelectorExpr); ok && ise.Sel.Name == "Skew" {
							return
						}
					}
					ce.Args[i] = &ast.CallExpr{Fun: &ast.SelectorExpr{X: ast.NewIdent("simsync"), Sel: ast.NewIdent("Skew")}, Args: []ast.Expr{ce.Args[i]}}
					r.needSync = true
					r.changed = true
				}
			}
			if x, ok := se.X.(*ast.Ident); ok && x.Name == "time" && se.Sel.Name == "AfterFunc" && len(ce.Args) == 2 {
				wrap(0)
			}
			// t.timer.Reset(d) inside EventTimer (a *time.Timer field named timer)
			if r.base == "event_timer.go" && se.Sel.Name == "Reset" && len(ce.Args) == 1 {
				if xs, ok := se.X.(*ast.SelectorExpr); ok && xs.Sel.Name == "timer" {
					wrap(0)
				}
			}
			return true
		})
	}
	if r.needSync {
		addImport(af, modPath+"/verifsim/simsync")
	}
	if !r.changed {
		return false, nil
	}
	var buf bytes.Buffer
	must(format.Node(&buf, r.fset, af))
	return true, buf.Bytes()
}

func addImport(af *ast.File, path string) {
	for _, im := range af.Imports {
		if p, _ := strconv.Unquote(im.Path.Value); p == path {
			return
		}
	}
	spec := &ast.ImportSpec{Path: &ast.BasicLit{Kind: token.STRING, Value: strconv.Quote(path)}}
	for _, d := range af.Decls {
		if gd, ok := d.(*ast.GenDecl); ok && gd.Tok == token.IMPORT {
			gd.Specs = append(gd.Specs, spec)
			if !gd.Lparen.IsValid() {
				gd.Lparen = gd.Pos()
				gd.Rparen = gd.End()
			}
			af.Imports = append(af.Imports, spec)
			return
		}
	}
	gd := &ast.GenDecl{Tok: token.IMPORT, Specs: []ast.Spec{spec}}
	af.Decls = append([]ast.Decl{gd}, af.Decls...)
	af.Imports = append(af.Imports, spec)
}

func (r *rewriter) site() string {
	return r.base + ":" + strings.Join(r.funcStack, "$")
}

var lockMethods = map[string]string{"Lock": "Lock", "Unlock": "Unlock", "RLock": "RLock", "RUnlock": "RUnlock"}

// lockCall recognises X.Lock() etc. with no arguments where X is a selector or identifier whose
// name ends in "utex", "Mu", "mu", "Lock" or "lock" (sync.Mutex / sync.RWMutex fields by this code base's
// naming; a non-mutex with such a name would fail to compile against simsync, which is exit 2).
func lockCall(e ast.Expr) (recv ast.Expr, method string, ok bool) {
	ce, ok := e.(*ast.CallExpr)
	if !ok || len(ce.Args) != 0 {
		return nil, "", false
	}
	se, ok := ce.Fun.(*ast.SelectorExpr)
	if !ok {
		return nil, "", false
	}
	m, ok := lockMethods[se.Sel.Name]
	if !ok {
		return nil, "", false
	}
	var name string
	switch x := se.X.(type) {
	case *ast.Ident:
		name = x.Name
	case *ast.SelectorExpr:
		name = x.Sel.Name
	default:
		return nil, "", false
	}
	ln := strings.ToLower(name)
	if strings.HasSuffix(ln, "mutex") || strings.HasSuffix(ln, "mu") || strings.HasSuffix(ln, "lock") {
		return se.X, m, true
	}
	return nil, "", false
}

func (r *rewriter) mkCall(recv ast.Expr, method string) *ast.CallExpr {
	r.needSync = true
	r.changed = true
	var mu ast.Expr = &ast.UnaryExpr{Op: token.AND, X: recv}
	if ptrLocks[r.base] {
		mu = recv
	}
	return &ast.CallExpr{
		Fun:  &ast.SelectorExpr{X: ast.NewIdent("simsync"), Sel: ast.NewIdent(method)},
		Args: []ast.Expr{mu, &ast.BasicLit{Kind: token.STRING, Value: strconv.Quote(r.site())}},
	}
}

func (r *rewriter) block(b *ast.BlockStmt) {
	if b == nil {
		return
	}
	r.stmts(b.List)
}

func (r *rewriter) stmts(list []ast.Stmt) {
	for i, s := range list {
		list[i] = r.stmt(s)
	}
}

func (r *rewriter) stmt(s ast.Stmt) ast.Stmt {
	switch s := s.(type) {
	case *ast.ExprStmt:
		if recv, m, ok := lockCall(s.X); ok {
			s.X = r.mkCall(recv, m)
			return s
		}
		r.expr(s.X)
	case *ast.DeferStmt:
		if recv, m, ok := lockCall(s.Call); ok {
			s.Call = r.mkCall(recv, m)
			return s
		}
		r.expr(s.Call)
	case *ast.GoStmt:
		r.expr(s.Call)
	case *ast.BlockStmt:
		r.block(s)
	case *ast.IfStmt:
		if s.Init != nil {
			s.Init = r.stmt(s.Init)
		}
		r.expr(s.Cond)
		r.block(s.Body)
		if s.Else != nil {
			s.Else = r.stmt(s.Else)
		}
	case *ast.ForStmt:
		if s.Init != nil {
			s.Init = r.stmt(s.Init)
		}
		if s.Post != nil {
			s.Post = r.stmt(s.Post)
		}
		r.expr(s.Cond)
		r.block(s.Body)
	case *ast.RangeStmt:
		r.expr(s.X)
		r.block(s.Body)
	case *ast.SwitchStmt:
		if s.Init != nil {
			s.Init = r.stmt(s.Init)
		}
		r.expr(s.Tag)
		r.block(s.Body)
	case *ast.TypeSwitchStmt:
		if s.Init != nil {
			s.Init = r.stmt(s.Init)
		}
		r.block(s.Body)
	case *ast.CaseClause:
		for _, e := range s.List {
			r.expr(e)
		}
		r.stmts(s.Body)
	case *ast.SelectStmt:
		blocking := true
		for _, c := range s.Body.List {
			if cc := c.(*ast.CommClause); cc.Comm == nil {
				blocking = false
			}
		}
		for _, c := range s.Body.List {
			cc := c.(*ast.CommClause)
			r.stmts(cc.Body)
			if blocking {
				r.needSync = true
				r.changed = true
				wake := &ast.ExprStmt{X: &ast.CallExpr{
					Fun:  &ast.SelectorExpr{X: ast.NewIdent("simsync"), Sel: ast.NewIdent("Wake")},
					Args: []ast.Expr{&ast.BasicLit{Kind: token.STRING, Value: strconv.Quote(r.site())}},
				}}
				cc.Body = append([]ast.Stmt{wake}, cc.Body...)
			}
		}
		if blocking && selectGateSites[r.site()] {
			return r.gateSelect(s)
		}
	case *ast.LabeledStmt:
		s.Stmt = r.stmt(s.Stmt)
	case *ast.AssignStmt:
		for _, e := range s.Rhs {
			r.expr(e)
		}
	case *ast.ReturnStmt:
		for _, e := range s.Results {
			r.expr(e)
		}
	case *ast.DeclStmt:
		if gd, ok := s.Decl.(*ast.GenDecl); ok {
			for _, sp := range gd.Specs {
				if vs, ok := sp.(*ast.ValueSpec); ok {
					for _, e := range vs.Values {
						r.expr(e)
					}
				}
			}
		}
	case *ast.SendStmt:
		r.expr(s.Value)
	}
	return s
}

// Blocking selects whose choice among several READY cases the simulator can decide (Go picks at random). The
// select is preceded by up to n polls, one case each, in the order simsync.SelectPick dictates; with no order
// set (the default, every workload but the ones that ask for it) SelectPick answers -1 and the original select
// runs as it stands.
var selectGateSites = map[string]bool{"session.go:run": true}

func (r *rewriter) gateSelect(s *ast.SelectStmt) ast.Stmt {
	n := len(s.Body.List)
	lit := func(i int) ast.Expr { return &ast.BasicLit{Kind: token.INT, Value: strconv.Itoa(i)} }
	sel := func() ast.Expr { return ast.NewIdent("verifSel") }
	notSel := func() ast.Expr { return &ast.UnaryExpr{Op: token.NOT, X: sel()} }
	out := &ast.BlockStmt{}
	out.List = append(out.List, &ast.AssignStmt{Lhs: []ast.Expr{sel()}, Tok: token.DEFINE, Rhs: []ast.Expr{ast.NewIdent("false")}})
	for k := 0; k < n; k++ {
		sw := &ast.SwitchStmt{
			Tag: &ast.CallExpr{
				Fun:  &ast.SelectorExpr{X: ast.NewIdent("simsync"), Sel: ast.NewIdent("SelectPick")},
				Args: []ast.Expr{&ast.BasicLit{Kind: token.STRING, Value: strconv.Quote(r.site())}, lit(k), lit(n)},
			},
			Body: &ast.BlockStmt{},
		}
		for i, c := range s.Body.List {
			cc := c.(*ast.CommClause)
			body := append([]ast.Stmt{&ast.AssignStmt{Lhs: []ast.Expr{sel()}, Tok: token.ASSIGN, Rhs: []ast.Expr{ast.NewIdent("true")}}}, cc.Body...)
			poll := &ast.SelectStmt{Body: &ast.BlockStmt{List: []ast.Stmt{
				&ast.CommClause{Comm: cc.Comm, Body: body},
				&ast.CommClause{},
			}}}
			sw.Body.List = append(sw.Body.List, &ast.CaseClause{List: []ast.Expr{lit(i)}, Body: []ast.Stmt{poll}})
		}
		out.List = append(out.List, &ast.IfStmt{Cond: notSel(), Body: &ast.BlockStmt{List: []ast.Stmt{sw}}})
	}
	out.List = append(out.List, &ast.IfStmt{Cond: notSel(), Body: &ast.BlockStmt{List: []ast.Stmt{s}}})
	return out
}

// expr descends into function literals (their bodies contain statements to rewrite).
func (r *rewriter) expr(e ast.Expr) {
	if e == nil {
		return
	}
	ast.Inspect(e, func(n ast.Node) bool {
		if fl, ok := n.(*ast.FuncLit); ok {
			r.funcStack = append(r.funcStack, "lit")
			r.block(fl.Body)
			r.funcStack = r.funcStack[:len(r.funcStack)-1]
			return false
		}
		return true
	})
}
