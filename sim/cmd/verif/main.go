// Command verif is the runner: it rebuilds the instrumented worker binary from the CURRENT working
// tree of the repository, runs worker processes, aggregates their results into the evidence file and
// decides the exit status.
//
//	verif check <ID> [--tier quick|thorough] [--workers N] [--budget SECONDS] [--seed N]
//	verif replay <file> [-v]
//	verif selftest determinism [--props C01,C04] [--seeds N] [--procs N]
//
// exit 0: property held on everything explored (KNOWN-FINDING lines possible)
// exit 1: VIOLATION property=<id> replay=<path>
// exit 2: build / watchdog / harness / non-replaying / nondeterministic — never a VIOLATION line
package main

import (
	"encoding/json"
	"flag"
	"fmt"
	"os"
	"os/exec"
	"path/filepath"
	"sort"
	"strconv"
	"strings"
	"sync"
	"time"
)

var (
	verifDir = envOr("VERIF_DIR", "/verif")
	repoDir  = envOr("VERIF_REPO", "/repo")
	// outDir receives evidence/ and replays/. Only experiments (sensitivity sweeps against scratch worktrees,
	// VERIF_REPO set) point it elsewhere; the registered commands use the defaults.
	outDir = envOr("VERIF_OUTDIR", envOr("VERIF_DIR", "/verif"))
	goBin    = envOr("VERIF_GO", "go1.26.8")
)

func envOr(k, d string) string {
	if v := os.Getenv(k); v != "" {
		return v
	}
	return d
}

func goEnv() []string {
	env := os.Environ()
	env = append(env, "GOFLAGS=-mod=mod", "GOPROXY=off", "GOSUMDB=off", "GOTOOLCHAIN=local", "CGO_ENABLED=1")
	return env
}

func die(code int, format string, a ...any) {
	fmt.Fprintf(os.Stderr, format+"\n", a...)
	os.Exit(code)
}

// build instruments the repository and compiles the worker binary into a fresh scratch directory.
func build() (scratch, worker string) {
	scratch, err := os.MkdirTemp("", "verif-build-")
	if err != nil {
		die(2, "mktemp: %v", err)
	}
	simDir := filepath.Join(verifDir, "sim")
	inst := filepath.Join(scratch, "instrument")
	run := func(dir string, name string, args ...string) {
		cmd := exec.Command(name, args...)
		cmd.Dir = dir
		cmd.Env = goEnv()
		out, err := cmd.CombinedOutput()
		if err != nil {
			os.RemoveAll(scratch)
			die(2, "BUILD-FAILURE (infrastructure, not a violation): %s %v: %v\n%s", name, args, err, out)
		}
	}
	run(simDir, goBin, "build", "-o", inst, "./cmd/instrument")
	ov := filepath.Join(scratch, "ov")
	run(simDir, inst, "-repo", repoDir, "-shims", filepath.Join(simDir, "shims"), "-out", ov)
	worker = filepath.Join(scratch, "worker.test")
	args := []string{"test", "-c", "-vet=off", "-overlay", filepath.Join(ov, "overlay.json"), "-o", worker}
	if repoDir != "/repo" {
		// experiments against a scratch worktree: same module file with the replace directive redirected
		mod, err := os.ReadFile(filepath.Join(simDir, "go.mod"))
		if err != nil {
			die(2, "go.mod: %v", err)
		}
		sum, _ := os.ReadFile(filepath.Join(simDir, "go.sum"))
		mod = []byte(strings.Replace(string(mod), "=> /repo", "=> "+repoDir, 1))
		os.WriteFile(filepath.Join(scratch, "go.mod"), mod, 0o644)
		os.WriteFile(filepath.Join(scratch, "go.sum"), sum, 0o644)
		args = append(args, "-modfile", filepath.Join(scratch, "go.mod"))
	}
	run(simDir, goBin, append(args, "./harness")...)
	return scratch, worker
}

type WorkerResult struct {
	Property   string            `json:"property"`
	Worker     int               `json:"worker"`
	Runs       int               `json:"runs"`
	Nontrivial []uint64          `json:"nontrivial_hashes"`
	Stats      map[string]int    `json:"stats"`
	States     []string          `json:"states"`
	SimSeconds float64           `json:"sim_seconds"`
	Samples    []json.RawMessage `json:"samples"`
	Rechecked  int               `json:"rechecked"`
	Diverged   int               `json:"diverged"`
	Known      map[string]int    `json:"known_hits"`
	KnownSeeds map[string]uint64 `json:"known_seeds"`
	Violation  json.RawMessage   `json:"violation,omitempty"`
	ReplayPath string            `json:"replay_path,omitempty"`
	Harness    string            `json:"harness_error,omitempty"`
	WallS      float64           `json:"wall_s"`
	Decisions  int               `json:"decisions"`
	Rule       string            `json:"rule"`
	Recycle    bool              `json:"recycle,omitempty"`
	NextRun    int               `json:"next_run,omitempty"`
}

type Known struct {
	Known []struct {
		Property    string `json:"property"`
		Fingerprint string `json:"fingerprint"`
		What        string `json:"what"`
	} `json:"known"`
	Fixed []struct {
		Property string `json:"property"`
		Commit   string `json:"commit"`
		What     string `json:"what"`
	} `json:"fixed"`
}

type crashInfo struct {
	seed   uint64
	idx    int
	worker int
	exit   int
	stderr string
}

// mergeSegment adds the result of a succeeding worker process (same worker slot) to the first one's.
func mergeSegment(a, r *WorkerResult) {
	a.Runs += r.Runs
	a.SimSeconds += r.SimSeconds
	a.Rechecked += r.Rechecked
	a.Diverged += r.Diverged
	a.Decisions += r.Decisions
	a.WallS += r.WallS
	a.Nontrivial = append(a.Nontrivial, r.Nontrivial...)
	if a.Stats == nil {
		a.Stats = map[string]int{}
	}
	for k, v := range r.Stats {
		a.Stats[k] += v
	}
	seen := map[string]bool{}
	for _, s := range a.States {
		seen[s] = true
	}
	for _, s := range r.States {
		if !seen[s] {
			a.States = append(a.States, s)
		}
	}
	if len(a.Samples) < 2 {
		a.Samples = append(a.Samples, r.Samples...)
	}
	if a.Known == nil {
		a.Known = map[string]int{}
	}
	if a.KnownSeeds == nil {
		a.KnownSeeds = map[string]uint64{}
	}
	for k, v := range r.Known {
		a.Known[k] += v
	}
	for k, v := range r.KnownSeeds {
		if _, ok := a.KnownSeeds[k]; !ok {
			a.KnownSeeds[k] = v
		}
	}
	a.Violation, a.ReplayPath, a.Harness = r.Violation, r.ReplayPath, r.Harness
	a.Recycle, a.NextRun = r.Recycle, r.NextRun
	a.Stats["worker_processes_recycled"]++
}

func tailStr(s string, n int) string {
	if len(s) > n {
		return s[len(s)-n:]
	}
	return s
}

type propMeta struct {
	Level       string
	Rule        string
	Assumptions []string
	Components  map[string]string
}

func main() {
	if len(os.Args) < 2 {
		die(2, "usage: verif check|replay|selftest ...")
	}
	switch os.Args[1] {
	case "check":
		os.Exit(check(os.Args[2:]))
	case "replay":
		os.Exit(replay(os.Args[2:]))
	case "selftest":
		os.Exit(selftest(os.Args[2:]))
	default:
		die(2, "unknown command %q", os.Args[1])
	}
}

func runWorker(worker string, env map[string]string, stdout *os.File) (int, string) {
	// address-space cap per worker: a runaway allocation must kill the worker, not the machine
	cmd := exec.Command("/bin/sh", "-c", "ulimit -v 8000000; exec \"$0\" \"$@\"", worker, "-test.run", "^TestWorker$", "-test.timeout", "12h")
	cmd.Env = append(os.Environ(), "GOMAXPROCS=1")
	for k, v := range env {
		cmd.Env = append(cmd.Env, k+"="+v)
	}
	var errb strings.Builder
	cmd.Stderr = &errb
	if stdout != nil {
		cmd.Stdout = stdout
	}
	err := cmd.Run()
	code := 0
	if err != nil {
		code = 1
		if ee, ok := err.(*exec.ExitError); ok {
			code = ee.ExitCode()
		}
	}
	s := errb.String()
	if len(s) > 20000 {
		s = s[:8000] + "\n...\n" + s[len(s)-12000:]
	}
	return code, s
}

func check(args []string) int {
	fs := flag.NewFlagSet("check", flag.ExitOnError)
	tier := fs.String("tier", envOr("VERIF_TIER", "quick"), "quick|thorough")
	workers := fs.Int("workers", 16, "worker processes")
	budget := fs.Int("budget", 0, "exploration wall budget in seconds (0: tier default)")
	seedF := fs.Int64("seed", -1, "batch seed")
	if len(args) < 1 {
		die(2, "usage: verif check <ID> [flags]")
	}
	id := args[0]
	fs.Parse(args[1:])
	if *tier != "quick" && *tier != "thorough" {
		*tier = "quick"
	}
	seed := int64(1)
	if v := os.Getenv("VERIF_SEED"); v != "" {
		if n, err := strconv.ParseInt(v, 10, 64); err == nil {
			seed = n
		}
	}
	if *seedF >= 0 {
		seed = *seedF
	}
	if *budget == 0 {
		if v := os.Getenv("VERIF_BUDGET_S"); v != "" {
			*budget, _ = strconv.Atoi(v)
		}
	}
	if *budget == 0 {
		if *tier == "quick" {
			*budget = 40
		} else {
			*budget = 900
		}
	}
	start := time.Now()
	scratch, worker := build()
	defer os.RemoveAll(scratch)
	buildS := time.Since(start).Seconds()

	replayDir := filepath.Join(outDir, "replays")
	os.MkdirAll(replayDir, 0o755)
	os.MkdirAll(filepath.Join(outDir, "evidence"), 0o755)
	knownPath := envOr("VERIF_KNOWN_FILE", filepath.Join(verifDir, "known_findings.json"))

	results := make([]*WorkerResult, *workers)
	fails := make([]string, *workers)
	crashes := make([]*crashInfo, *workers)
	emergencies := make([][]byte, *workers)
	var wg sync.WaitGroup
	for w := 0; w < *workers; w++ {
		wg.Add(1)
		go func(w int) {
			defer wg.Done()
			// A worker process that reports "recycle" (its heap has grown large: engine goroutines that never
			// end keep finished runs reachable) is succeeded by a fresh process that continues with the next
			// run index for the rest of the budget; the segments are merged.
			deadline := time.Now().Add(time.Duration(*budget) * time.Second)
			var merged *WorkerResult
			firstRun := 0
			var out string
			var code int
			var stderr string
			var b []byte
			var err error
			for seg := 0; ; seg++ {
				out = filepath.Join(scratch, fmt.Sprintf("res-%d-%d.json", w, seg))
				left := time.Until(deadline)
				if left < time.Second {
					left = time.Second
				}
				code, stderr = runWorker(worker, map[string]string{
					"VERIF_PROP": id, "VERIF_TIER": *tier, "VERIF_SEED": strconv.FormatInt(seed, 10),
					"VERIF_WORKER": strconv.Itoa(w), "VERIF_BUDGET_MS": strconv.Itoa(int(left / time.Millisecond)),
					"VERIF_OUT": out, "VERIF_KNOWN": knownPath, "VERIF_REPLAY_DIR": replayDir,
					"VERIF_FIRST_RUN": strconv.Itoa(firstRun),
				}, nil)
				b, err = os.ReadFile(out)
				if err != nil {
					break
				}
				var r WorkerResult
				if jerr := json.Unmarshal(b, &r); jerr != nil {
					break
				}
				if merged == nil {
					merged = &r
				} else {
					mergeSegment(merged, &r)
				}
				if !r.Recycle || r.Violation != nil || r.Harness != "" || time.Until(deadline) < 2*time.Second {
					break
				}
				firstRun = r.NextRun
			}
			if merged != nil && err == nil {
				b, _ = json.Marshal(merged)
			}
			if err != nil && code == 4 {
				if eb, eerr := os.ReadFile(out + ".emergency.json"); eerr == nil {
					emergencies[w] = eb
					return
				}
			}
			if err != nil {
				fails[w] = fmt.Sprintf("worker %d exit %d, no result file\n%s", w, code, stderr)
				if pb, perr := os.ReadFile(out + ".progress"); perr == nil {
					var seed uint64
					var idx int
					fmt.Sscanf(string(pb), "%d %d", &seed, &idx)
					crashes[w] = &crashInfo{seed: seed, idx: idx, worker: w, exit: code, stderr: stderr}
				}
				return
			}
			var r WorkerResult
			if err := json.Unmarshal(b, &r); err != nil {
				fails[w] = fmt.Sprintf("worker %d: bad result: %v", w, err)
				return
			}
			results[w] = &r
		}(w)
	}
	wg.Wait()

	// aggregate
	agg := WorkerResult{Property: id, Stats: map[string]int{}, Known: map[string]int{}, KnownSeeds: map[string]uint64{}}
	distinct := map[uint64]bool{}
	states := map[string]bool{}
	var viol *WorkerResult
	var harness []string
	for w, r := range results {
		if r == nil {
			harness = append(harness, fails[w])
			continue
		}
		agg.Runs += r.Runs
		agg.SimSeconds += r.SimSeconds
		agg.Rechecked += r.Rechecked
		agg.Diverged += r.Diverged
		agg.Decisions += r.Decisions
		agg.Rule = r.Rule
		for k, v := range r.Stats {
			agg.Stats[k] += v
		}
		for k, v := range r.Known {
			agg.Known[k] += v
			if _, ok := agg.KnownSeeds[k]; !ok {
				agg.KnownSeeds[k] = r.KnownSeeds[k]
			}
		}
		for _, h := range r.Nontrivial {
			distinct[h] = true
		}
		for _, s := range r.States {
			states[s] = true
		}
		if len(agg.Samples) < 3 {
			agg.Samples = append(agg.Samples, r.Samples...)
		}
		if r.Harness != "" {
			harness = append(harness, fmt.Sprintf("worker %d: %s", w, r.Harness))
		}
		if r.Violation != nil && viol == nil {
			viol = r
		}
	}
	if len(agg.Samples) > 3 {
		agg.Samples = agg.Samples[:3]
	}
	wall := time.Since(start).Seconds()

	exit := 0
	violations := 0
	var violLine string
	if viol != nil {
		// confirm in a fresh process
		code, _ := 0, ""
		tmp, _ := os.CreateTemp(scratch, "replay-out-")
		code, stderr := runWorker(worker, map[string]string{"VERIF_PROP": id, "VERIF_REPLAY": viol.ReplayPath, "VERIF_KNOWN": knownPath}, tmp)
		tmp.Close()
		ob, _ := os.ReadFile(tmp.Name())
		var vf struct {
			Fingerprint string `json:"fingerprint"`
			Detail      string `json:"detail"`
		}
		json.Unmarshal(viol.Violation, &vf)
		if code == 0 && strings.Contains(string(ob), "REPLAY fingerprint="+vf.Fingerprint+" ") {
			violations = 1
			exit = 1
			violLine = fmt.Sprintf("VIOLATION property=%s replay=%s", id, viol.ReplayPath)
			fmt.Printf("violation fingerprint: %s\ndetail: %s\n", vf.Fingerprint, vf.Detail)
		} else {
			harness = append(harness, fmt.Sprintf("violation %s did not replay in a fresh process (exit %d): %s %s", vf.Fingerprint, code, ob, stderr))
		}
	}

	// a worker stopped itself because an engine could not be stopped any more (emergency replay file):
	// confirm by replaying in a fresh process, which must end the same way
	for w, eb := range emergencies {
		if eb == nil || exit == 1 {
			continue
		}
		var ef struct {
			Fingerprint string `json:"fingerprint"`
			Seed        uint64 `json:"seed"`
			Detail      string `json:"detail"`
		}
		json.Unmarshal(eb, &ef)
		path := filepath.Join(replayDir, fmt.Sprintf("%s-%d-%d-emergency.json", id, seed, w))
		os.WriteFile(path, eb, 0o644)
		tmp, _ := os.CreateTemp(scratch, "emerg-out-")
		code, stderr := runWorker(worker, map[string]string{"VERIF_PROP": id, "VERIF_TIER": *tier, "VERIF_REPLAY": path, "VERIF_KNOWN": knownPath}, tmp)
		tmp.Close()
		ob, _ := os.ReadFile(tmp.Name())
		if code == 4 && strings.Contains(string(ob), "REPLAY fingerprint="+ef.Fingerprint+" ") {
			violations = 1
			exit = 1
			violLine = fmt.Sprintf("VIOLATION property=%s replay=%s", id, path)
			fmt.Printf("violation fingerprint: %s\ndetail: %s\n", ef.Fingerprint, tailStr(ef.Detail, 1500))
			var keep []string
			for _, h := range harness {
				if !strings.HasPrefix(h, fmt.Sprintf("worker %d exit", w)) {
					keep = append(keep, h)
				}
			}
			harness = keep
		} else {
			harness = append(harness, fmt.Sprintf("worker %d: emergency stop %s did not reproduce (exit %d): %s %s", w, ef.Fingerprint, code, ob, tailStr(stderr, 500)))
		}
	}

	// a worker process died: an engine goroutine panicked (nothing in the harness can recover that) or the
	// watchdog caught a spin. Re-run the seed in a fresh process; if it dies again this is a reproducible
	// crash/hang of the engine on wire input, which is what C09 forbids. For other properties it is
	// reported as infrastructure failure (exit 2).
	for _, ci := range crashes {
		if ci == nil || exit == 1 {
			continue
		}
		tmp, _ := os.CreateTemp(scratch, "crash-out-")
		code, stderr := runWorker(worker, map[string]string{"VERIF_PROP": id, "VERIF_TIER": *tier, "VERIF_ONESEED": strconv.FormatUint(ci.seed, 10), "VERIF_WATCHDOG_TICKS": "6"}, tmp)
		tmp.Close()
		if code == 0 {
			harness = append(harness, fmt.Sprintf("worker %d died (exit %d) in run %d seed %d but the seed does not reproduce it in a fresh process", ci.worker, ci.exit, ci.idx, ci.seed))
			continue
		}
		if id != "C09" {
			harness = append(harness, fmt.Sprintf("worker %d: engine crash/hang reproducible with seed %d (exit %d):\n%s", ci.worker, ci.seed, code, tailStr(stderr, 3000)))
			continue
		}
		kind := "C09/crash"
		if code == 3 {
			kind = "C09/hang"
		}
		rf := map[string]any{"property": id, "tier": *tier, "seed": ci.seed, "batch_seed": seed, "worker": ci.worker, "run_index": ci.idx,
			"generate": true, "fingerprint": kind, "detail": "worker process died while the engine handled wire input: " + tailStr(stderr, 4000)}
		path := filepath.Join(replayDir, fmt.Sprintf("%s-%d-%d-%d.json", id, seed, ci.worker, ci.idx))
		rb, _ := json.MarshalIndent(rf, "", " ")
		os.WriteFile(path, rb, 0o644)
		violations = 1
		exit = 1
		violLine = fmt.Sprintf("VIOLATION property=%s replay=%s", id, path)
		fmt.Printf("violation fingerprint: %s\n%s\n", kind, tailStr(stderr, 3000))
		// the death is explained; do not also report it as a harness failure
		var keep []string
		for _, h := range harness {
			if !strings.HasPrefix(h, fmt.Sprintf("worker %d exit", ci.worker)) {
				keep = append(keep, h)
			}
		}
		harness = keep
	}

	meta := metaFor(id)
	ev := map[string]any{
		"property_id": id,
		"tier":        *tier,
		"seed":        seed,
		"level":       meta.Level,
		"wall_s":      wall,
		"violations":  violations,
		"assumptions": meta.Assumptions,
	}
	faults := map[string]int{}
	probes := map[string]int{}
	other := map[string]int{}
	for k, v := range agg.Stats {
		switch {
		case strings.HasPrefix(k, "fault_"):
			faults[strings.TrimPrefix(k, "fault_")] = v
		case strings.HasPrefix(k, "probe_"):
			probes[strings.TrimPrefix(k, "probe_")] = v
		default:
			other[k] = v
		}
	}
	var stateList []string
	for s := range states {
		stateList = append(stateList, s)
	}
	sort.Strings(stateList)
	if len(stateList) > 200 {
		stateList = stateList[:200]
	}
	var samples []any
	for _, s := range agg.Samples {
		var v any
		json.Unmarshal(s, &v)
		samples = append(samples, v)
	}
	explore := wall - buildS
	if explore <= 0 {
		explore = 1
	}
	var gaps []string
	for k, v := range probes {
		if v == 0 {
			gaps = append(gaps, k)
		}
	}
	cov := map[string]any{
		"evaluations":           agg.Runs,
		"distinct_nontrivial":   len(distinct),
		"rule":                  agg.Rule,
		"samples":               samples,
		"simulated_runs":        agg.Runs,
		"runs_per_hour":         int(float64(agg.Runs) / explore * 3600),
		"seeds_per_hour":        int(float64(agg.Runs) / explore * 3600),
		"simulated_seconds":     agg.SimSeconds,
		"decisions_drawn":       agg.Decisions,
		"faults_fired":          faults,
		"probes_hit":            probes,
		"other_counters":        other,
		"distinct_abstract_states": len(states),
		"abstract_states":       stateList,
		"determinism_rechecked": agg.Rechecked,
		"determinism_diverged":  agg.Diverged,
		"workers":               *workers,
		"build_s":               buildS,
		"components":            meta.Components,
		"known_findings_hit":    agg.Known,
		"coverage_gaps":         gaps,
	}
	ev["coverage"] = cov
	b, _ := json.MarshalIndent(ev, "", " ")
	evPath := filepath.Join(outDir, "evidence", id+".json")
	if err := os.WriteFile(evPath, b, 0o644); err != nil {
		die(2, "cannot write evidence: %v", err)
	}

	// known findings
	var kf Known
	if kb, err := os.ReadFile(knownPath); err == nil {
		json.Unmarshal(kb, &kf)
	}
	for _, k := range kf.Known {
		if k.Property == id {
			fmt.Printf("KNOWN-FINDING: property=%s %s [fingerprint %s; observed %d times in this run]\n", id, k.What, k.Fingerprint, agg.Known[k.Fingerprint])
		}
	}

	fmt.Printf("%s tier=%s seed=%d runs=%d distinct_nontrivial=%d sim_seconds=%.0f wall=%.1fs (build %.1fs) rechecked=%d diverged=%d\n",
		id, *tier, seed, agg.Runs, len(distinct), agg.SimSeconds, wall, buildS, agg.Rechecked, agg.Diverged)
	if len(harness) > 0 {
		for i, h := range harness {
			if i >= 2 {
				fmt.Fprintf(os.Stderr, "HARNESS-ERROR: (+%d more) first line: %s\n", len(harness)-i, strings.SplitN(h, "\n", 2)[0])
				break
			}
			fmt.Fprintln(os.Stderr, "HARNESS-ERROR:", tailStr(h, 3000))
		}
		if exit == 0 {
			exit = 2
		}
	}
	if agg.Diverged > 0 && exit == 0 {
		exit = 2
	}
	if exit == 1 {
		fmt.Println(violLine)
	}
	if exit == 0 && (agg.Runs == 0 || len(distinct) < 2) {
		fmt.Fprintln(os.Stderr, "HARNESS-ERROR: explored too little to say anything")
		exit = 2
	}
	return exit
}

func replay(args []string) int {
	if len(args) < 1 {
		die(2, "usage: verif replay <file> [-v]")
	}
	path := args[0]
	verbose := len(args) > 1 && args[1] == "-v"
	b, err := os.ReadFile(path)
	if err != nil {
		die(2, "%v", err)
	}
	var rf struct {
		Property    string `json:"property"`
		Fingerprint string `json:"fingerprint"`
		Generate    bool   `json:"generate"`
	}
	if err := json.Unmarshal(b, &rf); err != nil {
		die(2, "%v", err)
	}
	scratch, worker := build()
	defer os.RemoveAll(scratch)
	env := map[string]string{"VERIF_PROP": rf.Property, "VERIF_REPLAY": path,
		"VERIF_KNOWN": envOr("VERIF_KNOWN_FILE", filepath.Join(verifDir, "known_findings.json"))}
	if verbose {
		env["VERIF_VERBOSE"] = "1"
	}
	tmp, _ := os.CreateTemp(scratch, "replay-out-")
	code, stderr := runWorker(worker, env, tmp)
	tmp.Close()
	ob, _ := os.ReadFile(tmp.Name())
	fmt.Print(string(ob))
	if code == 4 && strings.Contains(string(ob), "REPLAY fingerprint="+rf.Fingerprint+" ") {
		fmt.Printf("VIOLATION property=%s replay=%s\n", rf.Property, path)
		return 1
	}
	if code != 0 {
		fmt.Fprintln(os.Stderr, stderr)
		if rf.Generate && code != 2 {
			fmt.Printf("VIOLATION property=%s replay=%s\n", rf.Property, path)
			return 1
		}
		return 2
	}
	if strings.Contains(string(ob), "REPLAY fingerprint="+rf.Fingerprint+" ") {
		fmt.Printf("VIOLATION property=%s replay=%s\n", rf.Property, path)
		return 1
	}
	return 0
}

// selftest determinism: many same-seed processes at several GOMAXPROCS, compare aggregate hashes.
func selftest(args []string) int {
	if len(args) < 1 || args[0] != "determinism" {
		die(2, "usage: verif selftest determinism [--props a,b] [--runs N] [--procs N]")
	}
	fs := flag.NewFlagSet("selftest", flag.ExitOnError)
	props := fs.String("props", "", "comma-separated property ids (default: all claimed)")
	runs := fs.Int("runs", 100, "runs per process")
	procs := fs.Int("procs", 32, "processes per property")
	fs.Parse(args[1:])
	ids := strings.Split(*props, ",")
	if *props == "" {
		ids = claimed
	}
	scratch, worker := build()
	defer os.RemoveAll(scratch)
	bad := 0
	for _, id := range ids {
		hashes := make([]string, *procs)
		var wg sync.WaitGroup
		sem := make(chan struct{}, 24)
		for p := 0; p < *procs; p++ {
			wg.Add(1)
			go func(p int) {
				defer wg.Done()
				sem <- struct{}{}
				defer func() { <-sem }()
				out := filepath.Join(scratch, fmt.Sprintf("st-%s-%d.json", id, p))
				gmp := []string{"1", "4", "16"}[p%3]
				cmd := exec.Command(worker, "-test.run", "^TestWorker$")
				cmd.Env = append(os.Environ(), "GOMAXPROCS="+gmp, "VERIF_PROP="+id, "VERIF_SEED=777", "VERIF_WORKER=0",
					"VERIF_BUDGET_MS=600000", "VERIF_MAXRUNS="+strconv.Itoa(*runs), "VERIF_OUT="+out, "VERIF_REPLAY_DIR="+scratch,
					"VERIF_KNOWN="+envOr("VERIF_KNOWN_FILE", filepath.Join(verifDir, "known_findings.json")))
				cmd.Run()
				b, _ := os.ReadFile(out)
				var r WorkerResult
				json.Unmarshal(b, &r)
				sort.Slice(r.Nontrivial, func(i, j int) bool { return r.Nontrivial[i] < r.Nontrivial[j] })
				hashes[p] = fmt.Sprintf("%d:%v:%v:%s", r.Runs, r.Nontrivial, r.Violation != nil, r.Harness)
			}(p)
		}
		wg.Wait()
		div := 0
		for _, h := range hashes {
			if h != hashes[0] {
				div++
			}
		}
		fmt.Printf("selftest determinism %s: %d processes x %d runs, %d divergent\n", id, *procs, *runs, div)
		if div > 0 || strings.HasPrefix(hashes[0], "0:") {
			bad++
		}
	}
	if bad > 0 {
		return 2
	}
	return 0
}
