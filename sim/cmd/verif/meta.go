package main

var claimed = []string{"C01", "C02", "C03", "C04", "C05", "C06", "C07", "C08", "C09", "C12", "C16", "C17", "C18", "C20"}

var commonComponents = map[string]string{
	"session state machine, run loop, timers (EventTimer, AfterFunc, ticker)": "real code on simulated time (testing/synctest)",
	"Acceptor / Initiator, readLoop, writeLoop, parser, codec, validator":    "real",
	"TCP":         "stub (simnet, in-memory; TLS/SOCKS/PROXY not exercised)",
	"counterparty": "stub peer with an independent FIX codec (single-engine runs) or a second real engine",
	"application": "stub implementing quickfix.Application",
	"message store": "real (memory / file on simos / SQL on sqlite3 through a fault-injecting driver wrapper); MongoDB not run",
	"file system": "stub (simos, in-memory with op log, crash images and error injection)",
}

var commonAssumptions = []string{
	"one forward-only simulated clock per run (testing/synctest); no per-node skew",
	"context switches only at lock operations, blocking-select wake-ups and harness seams",
	"sampling, not enumeration: a clean batch is evidence, not proof",
}

func metaFor(id string) propMeta {
	m := propMeta{Level: "exploration", Assumptions: commonAssumptions, Components: commonComponents}
	switch id {
	case "C17":
		m.Level = "fault_enumeration"
	}
	return m
}
