// Package wire is the harness's own tag=value codec. Oracles and the stub peer never use the
// engine's codec: frames are split on SOH and the first '=', BodyLength and CheckSum are
// recomputed here.
package wire

import (
	"bytes"
	"errors"
	"fmt"
	"strconv"
	"time"
)

const SOH = 0x01

type Field struct {
	Tag int
	Val string
	// RawTag, when set, is written instead of Tag (tag texts that are not an int, e.g. 2^64+49).
	RawTag string
}

func F(tag int, val string) Field { return Field{Tag: tag, Val: val} }
func FI(tag int, v int) Field     { return Field{Tag: tag, Val: strconv.Itoa(v)} }

type Msg struct {
	Fields []Field
	Raw    []byte
}

// Scan splits a frame into fields. It does not interpret data fields (no generated message of
// the harness contains SOH inside a value except where a test says so).
func Scan(b []byte) (Msg, error) {
	m := Msg{Raw: b}
	rest := b
	dataLen := -1 // >= 0: the next field is a data field of that many bytes (it may contain SOH)
	for len(rest) > 0 {
		i := bytes.IndexByte(rest, SOH)
		if dataLen >= 0 {
			// "tag=" then exactly dataLen bytes then SOH
			if eq := bytes.IndexByte(rest, '='); eq > 0 && dataLen < len(rest) && eq+1+dataLen < len(rest) && rest[eq+1+dataLen] == SOH {
				i = eq + 1 + dataLen
			}
			dataLen = -1
		}
		if i < 0 {
			return m, errors.New("wire: trailing bytes without SOH")
		}
		f := rest[:i]
		rest = rest[i+1:]
		eq := bytes.IndexByte(f, '=')
		if eq <= 0 {
			return m, fmt.Errorf("wire: field without '=': %q", f)
		}
		tag, err := strconv.Atoi(string(f[:eq]))
		if err != nil {
			return m, fmt.Errorf("wire: bad tag %q", f[:eq])
		}
		m.Fields = append(m.Fields, Field{Tag: tag, Val: string(f[eq+1:])})
		if IsDataLengthTag(tag) {
			if n, err := strconv.Atoi(string(f[eq+1:])); err == nil && n >= 0 {
				dataLen = n
			}
		}
	}
	return m, nil
}

// IsDataLengthTag tells the length fields of the standard FIX data fields (the next field carries that many
// bytes, which may include the delimiter).
func IsDataLengthTag(tag int) bool {
	switch tag {
	case 90, 93, 95, 212, 348, 350, 352, 354, 356, 358, 360, 362, 364, 445, 618, 621:
		return true
	}
	return false
}

func (m Msg) Get(tag int) (string, bool) {
	for _, f := range m.Fields {
		if f.Tag == tag {
			return f.Val, true
		}
	}
	return "", false
}

func (m Msg) Has(tag int) bool { _, ok := m.Get(tag); return ok }

func (m Msg) Str(tag int) string { v, _ := m.Get(tag); return v }

func (m Msg) Int(tag int) (int, bool) {
	v, ok := m.Get(tag)
	if !ok {
		return 0, false
	}
	n, err := strconv.Atoi(v)
	if err != nil {
		return 0, false
	}
	return n, true
}

func (m Msg) IntOr(tag, def int) int {
	if n, ok := m.Int(tag); ok {
		return n
	}
	return def
}

func (m Msg) Type() string { return m.Str(35) }
func (m Msg) Seq() int     { return m.IntOr(34, -1) }
func (m Msg) PossDup() bool { return m.Str(43) == "Y" }

func IsAdminType(t string) bool {
	switch t {
	case "0", "1", "2", "3", "4", "5", "A":
		return true
	}
	return false
}

func (m Msg) IsAdmin() bool { return IsAdminType(m.Type()) }

// CheckFrame verifies the envelope of a frame independently: 8,9,35 first, 10 last, BodyLength and
// CheckSum recomputed.
func CheckFrame(b []byte) error {
	m, err := Scan(b)
	if err != nil {
		return err
	}
	if len(m.Fields) < 4 {
		return errors.New("wire: fewer than four fields")
	}
	if m.Fields[0].Tag != 8 || m.Fields[1].Tag != 9 || m.Fields[2].Tag != 35 {
		return fmt.Errorf("wire: frame does not start 8,9,35: %d,%d,%d", m.Fields[0].Tag, m.Fields[1].Tag, m.Fields[2].Tag)
	}
	last := m.Fields[len(m.Fields)-1]
	if last.Tag != 10 {
		return errors.New("wire: CheckSum not last")
	}
	for _, t := range []int{8, 9, 10} {
		n := 0
		for _, f := range m.Fields {
			if f.Tag == t {
				n++
			}
		}
		if n != 1 {
			return fmt.Errorf("wire: tag %d appears %d times", t, n)
		}
	}
	// body length: bytes after the SOH ending field 9 up to and including the SOH before "10="
	i8 := bytes.IndexByte(b, SOH)
	i9 := i8 + 1 + bytes.IndexByte(b[i8+1:], SOH)
	tail := len("10=") + len(last.Val) + 1
	bodyLen := len(b) - tail - (i9 + 1)
	if want, _ := strconv.Atoi(m.Fields[1].Val); want != bodyLen {
		return fmt.Errorf("wire: BodyLength %s, counted %d", m.Fields[1].Val, bodyLen)
	}
	sum := 0
	for _, c := range b[:len(b)-tail] {
		sum += int(c)
	}
	if fmt.Sprintf("%03d", sum%256) != last.Val {
		return fmt.Errorf("wire: CheckSum %s, computed %03d", last.Val, sum%256)
	}
	return nil
}

// Encode builds a frame: 8, 9, then fields in the given order, then 10. fields must start with 35.
func Encode(beginString string, fields []Field) []byte {
	var body bytes.Buffer
	for _, f := range fields {
		if f.RawTag != "" {
			body.WriteString(f.RawTag)
		} else {
			body.WriteString(strconv.Itoa(f.Tag))
		}
		body.WriteByte('=')
		body.WriteString(f.Val)
		body.WriteByte(SOH)
	}
	var out bytes.Buffer
	out.WriteString("8=")
	out.WriteString(beginString)
	out.WriteByte(SOH)
	out.WriteString("9=")
	out.WriteString(strconv.Itoa(body.Len()))
	out.WriteByte(SOH)
	out.Write(body.Bytes())
	return Seal(out.Bytes())
}

// Seal appends the CheckSum field computed over b.
func Seal(b []byte) []byte {
	sum := 0
	for _, c := range b {
		sum += int(c)
	}
	return append(b, []byte(fmt.Sprintf("10=%03d\x01", sum%256))...)
}

// EncodeRaw builds a frame from explicit fields with NO fix-ups except that a field {9,""} gets the
// correct BodyLength and a final {10,""} the correct CheckSum. Used to plant defects.
func EncodeRaw(fields []Field) []byte {
	// compute body length = bytes after field 9 up to before field 10 (if they are in canonical
	// positions); otherwise whatever follows the first 9 field.
	idx9 := -1
	for i, f := range fields {
		if f.Tag == 9 {
			idx9 = i
			break
		}
	}
	n := len(fields)
	hasCk := n > 0 && fields[n-1].Tag == 10 && fields[n-1].Val == ""
	end := n
	if hasCk {
		end = n - 1
	}
	bodyLen := 0
	if idx9 >= 0 {
		for _, f := range fields[idx9+1 : end] {
			bodyLen += len(strconv.Itoa(f.Tag)) + 1 + len(f.Val) + 1
		}
	}
	var out bytes.Buffer
	for i, f := range fields[:end] {
		v := f.Val
		if i == idx9 && v == "" {
			v = strconv.Itoa(bodyLen)
		}
		out.WriteString(strconv.Itoa(f.Tag))
		out.WriteByte('=')
		out.WriteString(v)
		out.WriteByte(SOH)
	}
	if hasCk {
		return Seal(out.Bytes())
	}
	return out.Bytes()
}

// SplitFrames splits a byte stream the engine wrote into frames using BodyLength. The engine
// writes one message per Write, but the oracle does not rely on that.
func SplitFrames(b []byte) (frames [][]byte, rest []byte) {
	for len(b) > 0 {
		if !bytes.HasPrefix(b, []byte("8=")) {
			return frames, b
		}
		i8 := bytes.IndexByte(b, SOH)
		if i8 < 0 || !bytes.HasPrefix(b[i8+1:], []byte("9=")) {
			return frames, b
		}
		j := bytes.IndexByte(b[i8+1:], SOH)
		if j < 0 {
			return frames, b
		}
		i9 := i8 + 1 + j
		n, err := strconv.Atoi(string(b[i8+3 : i9]))
		if err != nil || n < 0 {
			return frames, b
		}
		end := i9 + 1 + n
		if end+7 > len(b) || !bytes.HasPrefix(b[end:], []byte("10=")) {
			return frames, b
		}
		k := bytes.IndexByte(b[end:], SOH)
		if k < 0 {
			return frames, b
		}
		frames = append(frames, b[:end+k+1])
		b = b[end+k+1:]
	}
	return frames, nil
}

const (
	TimeSec   = "20060102-15:04:05"
	TimeMilli = "20060102-15:04:05.000"
)

func Stamp(t time.Time) string { return t.UTC().Format(TimeMilli) }
func StampSec(t time.Time) string { return t.UTC().Format(TimeSec) }

// ParseTime accepts second to nanosecond precision.
func ParseTime(s string) (time.Time, error) {
	for _, l := range []string{TimeSec, TimeMilli, "20060102-15:04:05.000000", "20060102-15:04:05.000000000"} {
		if len(s) == len(l) {
			return time.ParseInLocation(l, s, time.UTC)
		}
	}
	return time.Time{}, fmt.Errorf("wire: bad time %q", s)
}

// BodyRegion returns the bytes of a frame between the end of the header and the trailer (tag 10;
// tags 93/89 are not produced by the harness). The header ends before the first field whose tag is
// not a standard header tag. Used by C03 to compare replayed bodies byte for byte.
func BodyRegion(b []byte) []byte {
	pos := 0
	start := -1
	for pos < len(b) {
		i := bytes.IndexByte(b[pos:], SOH)
		if i < 0 {
			break
		}
		f := b[pos : pos+i]
		eq := bytes.IndexByte(f, '=')
		tag, _ := strconv.Atoi(string(f[:max0(eq)]))
		if start < 0 && !IsHeaderTag(tag) {
			start = pos
		}
		if start >= 0 && tag == 10 {
			return b[start:pos]
		}
		pos += i + 1
	}
	if start < 0 {
		return nil
	}
	return b[start:]
}

func max0(n int) int {
	if n < 0 {
		return 0
	}
	return n
}

var headerTags = map[int]bool{8: true, 9: true, 35: true, 49: true, 56: true, 115: true, 128: true, 90: true, 91: true,
	34: true, 50: true, 142: true, 57: true, 143: true, 116: true, 144: true, 129: true, 145: true, 43: true, 97: true,
	52: true, 122: true, 212: true, 213: true, 347: true, 369: true, 370: true, 627: true, 628: true, 629: true, 630: true,
	1128: true, 1129: true, 1156: true}

func IsHeaderTag(t int) bool { return headerTags[t] }
