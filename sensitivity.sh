#!/bin/bash
# Sensitivity self-test: for every seeded change under seeded/, makes a scratch worktree of /repo HEAD, applies
# the change there, runs the quick check of the property (or of the property named by "check_with" in
# meta.json) against that worktree (VERIF_REPO), removes the worktree, and writes seeded/RESULTS.md.
# /repo itself is not touched. usage: sensitivity.sh [budget_s] [id-glob]
cd "$(dirname "$0")"
HERE=$PWD
B=${1:-60}
G=${2:-*}
W=/tmp/verif-sens-wt${SENS_TAG:-}
O=/tmp/verif-sens-out${SENS_TAG:-}
echo "| seeded change | checked with | verdict | fingerprint | runs until report |" > seeded/RESULTS.md.new
echo "|---|---|---|---|---|" >> seeded/RESULTS.md.new
for d in seeded/$G/; do
  id=$(basename $d)
  [ -f $d/patch.diff ] || continue
  P=${id%%-*}
  C=$(python3 -c "import json,sys; print(json.load(open('$d/meta.json')).get('check_with','$P'))" 2>/dev/null || echo $P)
  git -C /repo worktree remove --force $W 2>/dev/null; rm -rf $W $O
  git -C /repo worktree add -q --detach $W HEAD || { echo "worktree failed"; exit 2; }
  if ! git -C $W apply $HERE/$d/patch.diff 2>/dev/null; then
    v="patch-does-not-apply"; fp=""; runs=""
  else
    mkdir -p $O
    out=$(VERIF_REPO=$W VERIF_OUTDIR=$O timeout 1500 ./verif check $C --budget $B 2>&1); rc=$?
    fp=$(echo "$out" | grep -o "violation fingerprint: .*" | head -1 | sed 's/violation fingerprint: //')
    [ -z "$fp" ] && fp=$(echo "$out" | grep -o "REPLAY fingerprint=[^ ]*" | head -1 | sed 's/REPLAY fingerprint=//')
    runs=$(echo "$out" | grep -o "runs=[0-9]*" | head -1)
    case $rc in 1) v=caught;; 0) v=MISSED;; *) v="exit$rc";; esac
    if [ $rc = 0 ] && grep -q neutralised_by $d/meta.json; then v="no longer a breakage (neutralised by a fix, see meta.json)"; fi
    if [ $rc = 0 ] && grep -q not_detected $d/meta.json; then v="NOT DETECTED (reason in meta.json)"; fi
  fi
  echo "| $id | $C | $v | ${fp:-} | ${runs:-} |" >> seeded/RESULTS.md.new
  echo "$id $C $v $fp $runs"
  git -C /repo worktree remove --force $W 2>/dev/null; rm -rf $W $O
done
if [ "$G" = "*" ]; then mv seeded/RESULTS.md.new seeded/RESULTS.md; else cat seeded/RESULTS.md.new; rm -f seeded/RESULTS.md.new; fi
