#!/bin/bash
# Sensitivity self-test: applies every seeded change to /repo in turn, runs the property's quick check,
# restores /repo, and writes seeded/RESULTS.md. /repo must be clean.
cd /verif
B=${1:-60}
echo "| seeded change | property | verdict | fingerprint | runs until report |" > seeded/RESULTS.md
echo "|---|---|---|---|---|" >> seeded/RESULTS.md
for d in seeded/*/; do
  id=$(basename $d); P=${id%%-*}
  [ -f $d/patch.diff ] || continue
  out=$(./tryseed.sh $P /verif/$d/patch.diff $B 2>&1)
  fp=$(echo "$out" | grep -o "violation fingerprint: .*" | head -1 | sed 's/violation fingerprint: //')
  runs=$(echo "$out" | grep -o "runs=[0-9]*" | head -1)
  if echo "$out" | grep -q "^EXIT 1"; then v=caught; elif echo "$out" | grep -q "^EXIT 0"; then v=MISSED; else v="exit2"; fi
  echo "| $id | $P | $v | ${fp:-} | ${runs:-} |" >> seeded/RESULTS.md
  echo "$id $v $fp $runs"
  rm -f replays/*.json
done
