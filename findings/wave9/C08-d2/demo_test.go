package quickfix

// Demo d2: the LogoutTimeout event armed by a logout the engine initiated on connection 1 is never cancelled;
// it is delivered while the engine waits for the answer to the Logout it sent on connection 2 and cuts that
// wait short: connection 2 is dropped before the counterparty's Logout (and what it sends ahead of it) can arrive.
// Copy to the repository root and run:  go test -vet=off -count=1 -run TestD2StaleLogoutTimeout .

import (
	"bytes"
	"testing"
	"time"

	"github.com/stretchr/testify/require"

	"github.com/quickfixgo/quickfix/internal"
)

type d2App struct{}

func (a *d2App) OnCreate(SessionID)                               {}
func (a *d2App) OnLogon(SessionID)                                {}
func (a *d2App) OnLogout(SessionID)                               {}
func (a *d2App) ToAdmin(*Message, SessionID)                      {}
func (a *d2App) ToApp(*Message, SessionID) error                  { return nil }
func (a *d2App) FromAdmin(*Message, SessionID) MessageRejectError { return nil }
func (a *d2App) FromApp(*Message, SessionID) MessageRejectError   { return nil }

type d2Conn struct {
	in     chan fixIn
	out    chan []byte
	sent   chan string // MsgType of what the engine wrote
	closed chan time.Time
}

func d2NewConn() *d2Conn {
	c := &d2Conn{in: make(chan fixIn, 8), out: make(chan []byte), sent: make(chan string, 64), closed: make(chan time.Time, 1)}
	go func() {
		for m := range c.out {
			for _, f := range bytes.Split(m, []byte{1}) {
				if bytes.HasPrefix(f, []byte("35=")) {
					c.sent <- string(f[3:])
				}
			}
		}
		c.closed <- time.Now()
	}()
	return c
}

func (c *d2Conn) waitSent(t *testing.T, msgType string) {
	for {
		select {
		case mt := <-c.sent:
			if mt == msgType {
				return
			}
		case <-time.After(3 * time.Second):
			require.FailNow(t, "engine did not send 35="+msgType)
		}
	}
}

func d2Msg(msgType string, seq int, sendingTime time.Time) fixIn {
	m := NewMessage()
	m.Header.SetField(tagBeginString, FIXString("FIX.4.2")).
		SetField(tagSenderCompID, FIXString("TW")).
		SetField(tagTargetCompID, FIXString("ISLD")).
		SetField(tagSendingTime, FIXUTCTimestamp{Time: sendingTime}).
		SetField(tagMsgSeqNum, FIXInt(seq)).
		SetField(tagMsgType, FIXString(msgType))
	if msgType == "A" {
		m.Body.SetField(tagEncryptMethod, FIXString("0"))
		m.Body.SetField(tagHeartBtInt, FIXInt(30))
	}
	return fixIn{bytes.NewBuffer(m.build()), time.Now()}
}

func TestD2StaleLogoutTimeout(t *testing.T) {
	const logoutTimeout = 1500 * time.Millisecond
	const secondLogoutAfter = 1000 * time.Millisecond

	store, err := NewMemoryStoreFactory().Create(SessionID{})
	require.NoError(t, err)
	s := &session{
		sessionID:    SessionID{BeginString: "FIX.4.2", TargetCompID: "TW", SenderCompID: "ISLD"},
		store:        store,
		application:  &d2App{},
		log:          nullLog{},
		sessionEvent: make(chan internal.Event),
		messageEvent: make(chan bool, 1),
		admin:        make(chan interface{}),
	}
	s.HeartBtInt = 30 * time.Second
	s.MaxLatency = 120 * time.Second
	s.LogonTimeout = 10 * time.Second
	s.LogoutTimeout = logoutTimeout
	go s.run()
	defer s.stop()

	// Connection 1 (acceptor role): logon, then a message with a stale SendingTime: the engine rejects it and
	// initiates a logout (arms LogoutTimeout #1). The counterparty answers the Logout at once; connection 1 ends.
	c1 := d2NewConn()
	require.NoError(t, s.connect(c1.in, c1.out))
	c1.in <- d2Msg("A", 1, time.Now())
	c1.waitSent(t, "A")
	c1.in <- d2Msg("0", 2, time.Now().Add(-time.Hour))
	c1.waitSent(t, "5")
	t0 := time.Now()
	c1.in <- d2Msg("5", 3, time.Now())
	<-c1.closed

	// Connection 2: logon; one second after the first logout the engine initiates another one (same cause).
	c2 := d2NewConn()
	require.NoError(t, s.connect(c2.in, c2.out))
	c2.in <- d2Msg("A", 2, time.Now()) // the rejected Heartbeat (2) was not consumed
	c2.waitSent(t, "A")
	time.Sleep(time.Until(t0.Add(secondLogoutAfter)))
	c2.in <- d2Msg("0", 3, time.Now().Add(-time.Hour))
	c2.waitSent(t, "5")
	t2 := time.Now()

	// The counterparty needs a moment for its Logout answer. The engine must wait LogoutTimeout for it.
	var waited time.Duration
	select {
	case at := <-c2.closed:
		waited = at.Sub(t2)
	case <-time.After(logoutTimeout + time.Second):
		waited = logoutTimeout + time.Second
	}
	require.GreaterOrEqual(t, waited, logoutTimeout-100*time.Millisecond,
		"a timer event of connection 1 (LogoutTimeout of the logout done there) acted on connection 2: the engine "+
			"dropped connection 2 only %v after sending its Logout although LogoutTimeout is %v", waited, logoutTimeout)
}
