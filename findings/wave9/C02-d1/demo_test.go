package quickfix

// Demo for defect d1: an application message that was ACCEPTED (SendToTarget returned nil), numbered and
// persisted while the session is logged on is silently thrown away - never transmitted, and wiped from the
// store - when the next thing the session goroutine handles is an in-session Logon that resets the sequence
// numbers (ResetSeqNumFlag=Y from the counterparty, or any in-session Logon with ResetOnLogon=Y on an acceptor).
//
// Copy into the repo root and run:
//   go test -vet=off -count=1 -run 'TestD1' .

import (
	"bytes"
	"strconv"
	"sync"
	"testing"
	"time"

	"github.com/stretchr/testify/mock"
	"github.com/stretchr/testify/require"
)

type d1Wire struct {
	mu   sync.Mutex
	msgs [][]byte
}

func (w *d1Wire) collect(ch <-chan []byte) {
	for m := range ch {
		w.mu.Lock()
		w.msgs = append(w.msgs, m)
		w.mu.Unlock()
	}
}

// clOrdIDs returns the ClOrdID (tag 11) of every first-time (no PossDupFlag) application message D on the wire.
func (w *d1Wire) clOrdIDs() (ids []string) {
	w.mu.Lock()
	defer w.mu.Unlock()
	for _, raw := range w.msgs {
		m := NewMessage()
		if err := ParseMessage(m, bytes.NewBuffer(raw)); err != nil {
			continue
		}
		if t, _ := m.Header.GetString(tagMsgType); t != "D" {
			continue
		}
		if m.Header.Has(tagPossDupFlag) {
			continue
		}
		id, _ := m.Body.GetString(Tag(11))
		ids = append(ids, id)
	}
	return
}

func d1Rig(t *testing.T) (*SessionSuiteRig, *d1Wire, chan []byte) {
	rig := &SessionSuiteRig{}
	rig.SetT(t)
	rig.Init()
	out := make(chan []byte)
	rig.session.messageOut = out
	rig.session.messageEvent = make(chan bool, 1)
	rig.session.State = inSession{}
	wire := &d1Wire{}
	go wire.collect(out)

	rig.MockApp.On("ToApp").Return(nil)
	rig.MockApp.On("ToAdmin").Return()
	rig.MockApp.On("OnLogon").Return()
	return rig, wire, out
}

func d1Order(id string) *Message {
	m := NewMessage()
	m.Header.SetField(tagMsgType, FIXString("D"))
	m.Body.SetField(Tag(11), FIXString(id))
	return m
}

// The established session has sent 1..5 and received 1..5.
func d1Establish(rig *SessionSuiteRig) {
	for i := 0; i < 5; i++ {
		rig.IncrNextSenderMsgSeqNum()
		rig.IncrNextTargetMsgSeqNum()
	}
	rig.MessageFactory.SetNextSeqNum(1)
}

func d1ResetLogon(rig *SessionSuiteRig) *Message {
	logon := rig.Logon() // MsgSeqNum 1
	logon.Body.SetField(tagHeartBtInt, FIXInt(30))
	logon.Body.SetField(tagResetSeqNumFlag, FIXBoolean(true))
	return logon
}

// Variant A - pure select order. While the session goroutine was busy an application goroutine queued an order
// (messageEvent is ready) and the counterparty's Logon(141=Y) was read off the socket (messageIn is ready).
// `select` picks messageIn first.
func TestD1_SelectPicksResetLogonBeforeQueuedSend(t *testing.T) {
	rig, wire, _ := d1Rig(t)
	rig.MockApp.On("FromAdmin").Return(nil)
	d1Establish(rig)

	// SendToTarget from another goroutine (it calls queueForSend): accepted, number 6, persisted, queued.
	require.NoError(t, rig.session.queueForSend(d1Order("ORDER-A")))
	require.Equal(t, 7, rig.session.store.NextSenderMsgSeqNum(), "the order was handed number 6")
	require.True(t, rig.session.IsLoggedOn())

	// run(): case fixIn := <-s.messageIn  (chosen at random ahead of case <-s.messageEvent)
	rig.session.fixMsgIn(rig.session, d1ResetLogon(rig))
	require.True(t, rig.session.IsLoggedOn(), "the session stays logged on across the in-session reset")

	// run(): case <-s.messageEvent
	rig.session.SendAppMessages(rig.session)
	time.Sleep(50 * time.Millisecond)

	ids := wire.clOrdIDs()
	stored, _ := rig.session.store.GetMessages(1, 1000)
	var storedHasOrder bool
	for _, b := range stored {
		if bytes.Contains(b, []byte("11=ORDER-A")) {
			storedHasOrder = true
		}
	}
	if len(ids) == 0 {
		t.Fatalf("VIOLATED: \"while the session stays logged on every assigned number is transmitted\": "+
			"the order accepted under MsgSeqNum 6 while logged on was never put on the wire "+
			"(first-time D on wire: %v; still in the store: %v; toSend now holds %d messages; session logged on: %v)",
			ids, storedHasOrder, len(rig.session.toSend), rig.session.IsLoggedOn())
	}
}

// Control: the other select order (messageEvent first) transmits the order. Passes.
func TestD1_ControlOtherOrder(t *testing.T) {
	rig, wire, _ := d1Rig(t)
	rig.MockApp.On("FromAdmin").Return(nil)
	d1Establish(rig)
	require.NoError(t, rig.session.queueForSend(d1Order("ORDER-A")))
	// run(): case <-s.messageEvent (the send is non-blocking and re-notifies until the writer takes the message)
	for len(rig.session.toSend) > 0 {
		rig.session.SendAppMessages(rig.session)
		time.Sleep(time.Millisecond)
	}
	rig.session.fixMsgIn(rig.session, d1ResetLogon(rig))
	time.Sleep(50 * time.Millisecond)
	require.Equal(t, []string{"ORDER-A"}, wire.clOrdIDs())
}

// Variant B - no luck needed: the FromAdmin callback for the reset Logon takes a while (the session goroutine is
// held up in it, still logged on); every order another goroutine sends meanwhile is accepted and then discarded.
func TestD1_SlowFromAdminOnResetLogon(t *testing.T) {
	rig, wire, _ := d1Rig(t)
	d1Establish(rig)

	inCallback := make(chan struct{})
	release := make(chan struct{})
	rig.MockApp.On("FromAdmin").Run(func(_ mock.Arguments) {
		close(inCallback)
		<-release
	}).Return(nil)

	const n = 3
	go func() {
		<-inCallback
		for i := 0; i < n; i++ {
			// what SendToTarget does
			if err := rig.session.queueForSend(d1Order("ORDER-" + strconv.Itoa(i))); err != nil {
				t.Errorf("send refused: %v", err)
			}
		}
		close(release)
	}()

	rig.session.fixMsgIn(rig.session, d1ResetLogon(rig))
	require.True(t, rig.session.IsLoggedOn())
	rig.session.SendAppMessages(rig.session)
	time.Sleep(50 * time.Millisecond)

	ids := wire.clOrdIDs()
	if len(ids) != n {
		t.Fatalf("VIOLATED: \"while the session stays logged on every assigned number is transmitted\": "+
			"%d orders were accepted (numbers 6..%d) while logged on, %d reached the wire: %v; "+
			"store's next outbound number is now %d and the store holds none of them",
			n, 5+n, len(ids), ids, rig.session.store.NextSenderMsgSeqNum())
	}
}
