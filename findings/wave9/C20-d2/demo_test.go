package quickfix

// Demo d2 (same root cause as d1, the other role, another source of the hold-up, a perfectly healthy peer):
// a real Initiator (HeartBtInt=1 from configuration) talks over the loopback interface to a counterparty that
// sends a Heartbeat every interval and answers every TestRequest at once. The message store of the engine is
// slow (every write takes 0.8s). The session goroutine is therefore regularly late, finds a PeerTimeout event
// and inbound messages waiting together, and the select in session.run() picks among them at random:
//   - a PeerTimeout that fired while the goroutine was held up is handled although messages of the
//     counterparty are waiting in messageIn (TestRequest to a peer that is not silent);
//   - a second PeerTimeout that fired before the TestRequest went out is then handled in the
//     "test request pending" state, again ahead of the waiting messages: "Session Timeout", the session is dropped.
// The order is chosen by the select at random, so the run is repeated a few times (each at most 25s).

import (
	"bufio"
	"fmt"
	"net"
	"strconv"
	"sync"
	"testing"
	"time"

	"github.com/stretchr/testify/require"
)

type d2SlowStore struct {
	MessageStore
	delay time.Duration
}

func (s d2SlowStore) SaveMessageAndIncrNextSenderMsgSeqNum(seqNum int, msg []byte) error {
	time.Sleep(s.delay)
	return s.MessageStore.SaveMessageAndIncrNextSenderMsgSeqNum(seqNum, msg)
}
func (s d2SlowStore) IncrNextTargetMsgSeqNum() error {
	time.Sleep(s.delay)
	return s.MessageStore.IncrNextTargetMsgSeqNum()
}

type d2SlowStoreFactory struct{ delay time.Duration }

func (f d2SlowStoreFactory) Create(id SessionID) (MessageStore, error) {
	inner, err := NewMemoryStoreFactory().Create(id)
	return d2SlowStore{inner, f.delay}, err
}

type d2App struct {
	mu      sync.Mutex
	logons  int
	logouts chan time.Time
}

func (a *d2App) OnCreate(SessionID) {}
func (a *d2App) OnLogon(SessionID) {
	a.mu.Lock()
	a.logons++
	a.mu.Unlock()
}
func (a *d2App) OnLogout(SessionID) {
	select {
	case a.logouts <- time.Now():
	default:
	}
}
func (a *d2App) FromAdmin(*Message, SessionID) MessageRejectError { return nil }
func (a *d2App) FromApp(*Message, SessionID) MessageRejectError   { return nil }
func (a *d2App) ToApp(*Message, SessionID) error                  { return nil }
func (a *d2App) ToAdmin(*Message, SessionID)                      {}

type d2EventLog struct {
	mu     *sync.Mutex
	events *[]string
	t0     time.Time
}

func (l d2EventLog) OnIncoming([]byte) {}
func (l d2EventLog) OnOutgoing([]byte) {}
func (l d2EventLog) OnEvent(s string) {
	l.mu.Lock()
	*l.events = append(*l.events, fmt.Sprintf("%6dms  engine log: %s", time.Since(l.t0).Milliseconds(), s))
	l.mu.Unlock()
}
func (l d2EventLog) OnEventf(f string, a ...interface{}) { l.OnEvent(fmt.Sprintf(f, a...)) }

type d2LogFactory struct{ l d2EventLog }

func (f d2LogFactory) Create() (Log, error)                   { return f.l, nil }
func (f d2LogFactory) CreateSessionLog(SessionID) (Log, error) { return f.l, nil }

func d2Frame(msgType string, seq int, body string) []byte {
	b := "35=" + msgType + "\x0149=CPTY\x0156=ENGINE\x0134=" + strconv.Itoa(seq) +
		"\x0152=" + time.Now().UTC().Format("20060102-15:04:05.000") + "\x01" + body
	head := "8=FIX.4.2\x019=" + strconv.Itoa(len(b)) + "\x01"
	sum := 0
	for _, c := range []byte(head + b) {
		sum += int(c)
	}
	return []byte(head + b + fmt.Sprintf("10=%03d\x01", sum%256))
}

// d2Round runs one logon against a healthy counterparty. It returns a description of the violation, or "".
func d2Round(t *testing.T) string {
	listener, err := net.Listen("tcp", "127.0.0.1:0")
	require.NoError(t, err)
	defer listener.Close()
	port := listener.Addr().(*net.TCPAddr).Port

	settings := NewSettings()
	ss := NewSessionSettings()
	ss.Set("BeginString", "FIX.4.2")
	ss.Set("SenderCompID", "ENGINE")
	ss.Set("TargetCompID", "CPTY")
	ss.Set("HeartBtInt", "1")
	ss.Set("ReconnectInterval", "30")
	ss.Set("SocketConnectHost", "127.0.0.1")
	ss.Set("SocketConnectPort", strconv.Itoa(port))
	_, err = settings.AddSession(ss)
	require.NoError(t, err)

	t0 := time.Now()
	var mu sync.Mutex
	var events []string
	note := func(f string, a ...interface{}) {
		mu.Lock()
		events = append(events, fmt.Sprintf("%6dms  ", time.Since(t0).Milliseconds())+fmt.Sprintf(f, a...))
		mu.Unlock()
	}

	app := &d2App{logouts: make(chan time.Time, 1)}
	initiator, err := NewInitiator(app, d2SlowStoreFactory{800 * time.Millisecond}, settings,
		d2LogFactory{d2EventLog{&mu, &events, t0}})
	require.NoError(t, err)
	require.NoError(t, initiator.Start())
	defer initiator.Stop()

	conn, err := listener.Accept()
	require.NoError(t, err)
	defer conn.Close()

	// The healthy counterparty.
	var (
		wmu        sync.Mutex
		seq        int
		sentTimes  []time.Time
		slowestAns time.Duration
		testReqs   int
	)
	send := func(msgType, body string) {
		wmu.Lock()
		defer wmu.Unlock()
		seq++
		if _, werr := conn.Write(d2Frame(msgType, seq, body)); werr == nil {
			sentTimes = append(sentTimes, time.Now())
			note("cpty: sent 35=%s 34=%d %s", msgType, seq, body)
		}
	}
	stop := make(chan struct{})
	defer close(stop)
	go func() {
		parser := newParser(bufio.NewReader(conn))
		for {
			msg, rerr := parser.ReadMessage()
			if rerr != nil {
				note("cpty: connection closed by the engine")
				return
			}
			raw := msg.Bytes()
			arrived := time.Now()
			switch d1FieldOf(raw, "35") {
			case "A":
				send("A", "98=0\x01108=1\x01")
				go func() { // a Heartbeat every interval, whatever else is sent
					tick := time.NewTicker(time.Second)
					defer tick.Stop()
					for {
						select {
						case <-tick.C:
							send("0", "")
						case <-stop:
							return
						}
					}
				}()
			case "1":
				send("0", "112="+d1FieldOf(raw, "112")+"\x01")
				wmu.Lock()
				testReqs++
				if d := time.Since(arrived); d > slowestAns {
					slowestAns = d
				}
				wmu.Unlock()
				note("cpty: received TestRequest %s, answered at once", d1FieldOf(raw, "112"))
			default:
				note("cpty: received 35=%s 34=%s", d1FieldOf(raw, "35"), d1FieldOf(raw, "34"))
			}
		}
	}()

	select {
	case dropped := <-app.logouts:
		time.Sleep(50 * time.Millisecond)
		wmu.Lock()
		recent, last := 0, time.Duration(0)
		for _, at := range sentTimes {
			if at.Before(dropped) && dropped.Sub(at) <= 2400*time.Millisecond {
				recent++
				last = dropped.Sub(at)
			}
		}
		answers, slowest := testReqs, slowestAns
		wmu.Unlock()
		mu.Lock()
		for _, e := range events {
			t.Log(e)
		}
		mu.Unlock()
		return fmt.Sprintf("KEEP-ALIVE VIOLATED: the engine dropped the session and called OnLogout %v after the logon, "+
			"although the counterparty was never silent: it wrote %d messages in the 2.4s (2 x 1.2 heartbeat intervals) before the drop, "+
			"the last one %v before it, and answered all %d TestRequests of the engine within %v "+
			"(\"any inbound message in between cancels the pending disconnect\"; the dead-peer disconnect is for a peer from which nothing arrives)",
			dropped.Sub(t0).Round(time.Millisecond), recent, last.Round(time.Millisecond), answers, slowest.Round(time.Microsecond))
	case <-time.After(25 * time.Second):
		return ""
	}
}

func d1FieldOf(msg []byte, tag string) string {
	start := 0
	for i := 0; i <= len(msg); i++ {
		if i == len(msg) || msg[i] == 1 {
			f := string(msg[start:i])
			if len(f) > len(tag) && f[:len(tag)+1] == tag+"=" {
				return f[len(tag)+1:]
			}
			start = i + 1
		}
	}
	return ""
}

func TestD2_HealthyPeerDroppedWhenSessionGoroutineIsLate(t *testing.T) {
	for round := 1; round <= 6; round++ {
		if violation := d2Round(t); violation != "" {
			require.FailNow(t, fmt.Sprintf("round %d: %s", round, violation))
		}
		t.Logf("round %d: the session survived 25s", round)
	}
	t.Skip("the random order of the select did not produce the sequence in 6 rounds")
}
