package quickfix

// Demo d1: a SendToTarget that is inside a slow ToApp callback when its engine is stopped and recreated on
// the same persistent store takes the same MsgSeqNum as the first message of the new engine. Both sends are
// accepted (nil error); one of the two messages is overwritten in the store and is never delivered.
//
// Run (from the repo root): cp _found/d1/demo_test.go ./zz_d1_demo_test.go &&
//   go test -vet=off -count=1 -run TestD1 . ; rm zz_d1_demo_test.go

import (
	"net"
	"strconv"
	"sync"
	"testing"
	"time"

	"github.com/quickfixgo/quickfix/config"
	"github.com/stretchr/testify/require"
)

// d1Stores hands out one store per session id for the life of the test: it stands for the persistent store
// (file, SQL) that a recreated engine is opened on.
type d1Stores struct {
	mu sync.Mutex
	m  map[SessionID]MessageStore
}

func (f *d1Stores) Create(id SessionID) (MessageStore, error) {
	f.mu.Lock()
	defer f.mu.Unlock()
	if st, ok := f.m[id]; ok {
		return st, nil
	}
	st, err := NewMemoryStoreFactory().Create(id)
	if f.m == nil {
		f.m = map[SessionID]MessageStore{}
	}
	f.m[id] = st
	return st, err
}

type d1App struct {
	mu      sync.Mutex
	got     []string
	entered chan struct{} // closed when ToApp has been entered for "X"
	release chan struct{} // ToApp of "X" returns when this is closed
	once    sync.Once
}

func (a *d1App) OnCreate(SessionID)                                {}
func (a *d1App) OnLogon(SessionID)                                 {}
func (a *d1App) OnLogout(SessionID)                                {}
func (a *d1App) ToAdmin(*Message, SessionID)                       {}
func (a *d1App) FromAdmin(*Message, SessionID) MessageRejectError { return nil }
func (a *d1App) ToApp(m *Message, _ SessionID) error {
	if m.Header.Has(tagPossDupFlag) {
		return nil // a replay
	}
	if txt, _ := m.Body.GetString(Tag(58)); txt == "X" && a.entered != nil {
		slow := false
		a.once.Do(func() { slow = true })
		if slow {
			close(a.entered)
			<-a.release // the slow application callback
		}
	}
	return nil
}
func (a *d1App) FromApp(m *Message, _ SessionID) MessageRejectError {
	txt, _ := m.Body.GetString(Tag(58))
	a.mu.Lock()
	a.got = append(a.got, txt)
	a.mu.Unlock()
	return nil
}
func (a *d1App) received() []string {
	a.mu.Lock()
	defer a.mu.Unlock()
	return append([]string(nil), a.got...)
}

func d1Order(txt string) *Message {
	m := NewMessage()
	m.Header.SetField(tagMsgType, FIXString("D"))
	m.Body.SetField(Tag(58), FIXString(txt))
	return m
}

func TestD1SendInFlightAcrossEngineRecreation(t *testing.T) {
	ln, err := net.Listen("tcp", "127.0.0.1:0")
	require.NoError(t, err)
	port := ln.Addr().(*net.TCPAddr).Port
	require.NoError(t, ln.Close()) // nobody listens yet: the initiator keeps retrying

	iniApp := &d1App{entered: make(chan struct{}), release: make(chan struct{})}
	accApp := &d1App{}
	stores := &d1Stores{}

	is := NewSettings()
	iss := NewSessionSettings()
	iss.Set(config.BeginString, "FIX.4.2")
	iss.Set(config.SenderCompID, "D1INI")
	iss.Set(config.TargetCompID, "D1ACC")
	iss.Set(config.HeartBtInt, "1")
	iss.Set(config.ReconnectInterval, "1")
	iss.Set(config.SocketConnectHost, "127.0.0.1")
	iss.Set(config.SocketConnectPort, strconv.Itoa(port))
	iniID, err := is.AddSession(iss)
	require.NoError(t, err)

	// Engine 1.
	ini1, err := NewInitiator(iniApp, stores, is, NewNullLogFactory())
	require.NoError(t, err)
	require.NoError(t, ini1.Start())

	// The application sends X; its ToApp callback is slow.
	errX := make(chan error, 1)
	go func() { errX <- SendToTarget(d1Order("X"), iniID) }()
	<-iniApp.entered

	// Meanwhile the engine is discarded and recreated on its store. Stop() returns although a send that
	// it has admitted is still being processed.
	ini1.Stop()
	ini2, err := NewInitiator(iniApp, stores, is, NewNullLogFactory())
	require.NoError(t, err)
	require.NoError(t, ini2.Start())
	defer ini2.Stop()

	// The application sends Y through the new engine, then the slow callback of X returns.
	require.NoError(t, SendToTarget(d1Order("Y"), iniID), "Y is accepted for sending")
	close(iniApp.release)
	require.NoError(t, <-errX, "X is accepted for sending")

	// Bring up the counterparty and let the link stay up.
	as := NewSettings()
	as.GlobalSettings().Set(config.SocketAcceptPort, strconv.Itoa(port))
	ass := NewSessionSettings()
	ass.Set(config.BeginString, "FIX.4.2")
	ass.Set(config.SenderCompID, "D1ACC")
	ass.Set(config.TargetCompID, "D1INI")
	_, err = as.AddSession(ass)
	require.NoError(t, err)
	acc, err := NewAcceptor(accApp, NewMemoryStoreFactory(), as, NewNullLogFactory())
	require.NoError(t, err)
	require.NoError(t, acc.Start())
	defer acc.Stop()

	deadline := time.Now().Add(8 * time.Second) // reconnect interval 1s + several 1s heartbeat intervals
	for time.Now().Before(deadline) && len(accApp.received()) < 2 {
		time.Sleep(50 * time.Millisecond)
	}
	time.Sleep(1500 * time.Millisecond)

	st := stores.m[iniID]
	stored, _ := st.GetMessages(1, 100)
	t.Logf("initiator store: %d message(s) stored, next sender MsgSeqNum %d", len(stored), st.NextSenderMsgSeqNum())
	require.ElementsMatch(t, []string{"X", "Y"}, accApp.received(),
		"every application message accepted for sending must be delivered to the other side exactly once: "+
			"X and Y were both accepted (SendToTarget returned nil)")
}
