package quickfix

// Demo d1: a PeerTimeout event that is already "in flight" (handed to the sessionEvent channel by the
// peerTimer goroutine) is not invalidated when the session re-arms the peer timer. After the session
// goroutine has been held up by a slow ToAdmin callback, two such events are delivered back to back:
// the first sends the TestRequest, the second - which fired BEFORE the TestRequest went out - is taken for
// the expiry of the answer period. The session is dropped a few milliseconds after its TestRequest instead
// of 1.2 heartbeat intervals after it; the answer of the counterparty (sent 50ms later) is never read.
//
// A real Acceptor on the loopback interface, real run loop, real timers; the counterparty is a raw TCP client.

import (
	"bufio"
	"bytes"
	"fmt"
	"net"
	"strconv"
	"sync"
	"testing"
	"time"

	"github.com/stretchr/testify/require"
)

const d1HeartBtInt = 1 // seconds, announced by the counterparty's Logon

// d1SlowApp: every administrative message except the Logon takes 1.5 heartbeat intervals in ToAdmin.
type d1SlowApp struct {
	mu      sync.Mutex
	t0      time.Time
	logouts []time.Duration
	trace   []string
}

func (a *d1SlowApp) note(format string, args ...interface{}) {
	a.mu.Lock()
	defer a.mu.Unlock()
	a.trace = append(a.trace, fmt.Sprintf("%6dms  ", time.Since(a.t0).Milliseconds())+fmt.Sprintf(format, args...))
}

func (a *d1SlowApp) OnCreate(SessionID) {}
func (a *d1SlowApp) OnLogon(SessionID)  { a.note("app: OnLogon") }
func (a *d1SlowApp) OnLogout(SessionID) {
	a.note("app: OnLogout")
	a.mu.Lock()
	a.logouts = append(a.logouts, time.Since(a.t0))
	a.mu.Unlock()
}
func (a *d1SlowApp) FromAdmin(*Message, SessionID) MessageRejectError { return nil }
func (a *d1SlowApp) FromApp(*Message, SessionID) MessageRejectError   { return nil }
func (a *d1SlowApp) ToApp(*Message, SessionID) error                  { return nil }
func (a *d1SlowApp) ToAdmin(msg *Message, _ SessionID) {
	msgType, _ := msg.Header.GetString(tagMsgType)
	if msgType == "A" {
		return
	}
	a.note("app: ToAdmin(%s) begins, takes 1.5s", msgType)
	time.Sleep(1500 * time.Millisecond)
}

func d1Frame(msgType string, seq int, body string) []byte {
	b := "35=" + msgType + "\x0149=CPTY\x0156=ENGINE\x0134=" + strconv.Itoa(seq) +
		"\x0152=" + time.Now().UTC().Format("20060102-15:04:05.000") + "\x01" + body
	head := "8=FIX.4.2\x019=" + strconv.Itoa(len(b)) + "\x01"
	sum := 0
	for _, c := range []byte(head + b) {
		sum += int(c)
	}
	return []byte(head + b + fmt.Sprintf("10=%03d\x01", sum%256))
}

func d1Field(msg []byte, tag string) string {
	for _, f := range bytes.Split(msg, []byte{1}) {
		if bytes.HasPrefix(f, []byte(tag+"=")) {
			return string(f[len(tag)+1:])
		}
	}
	return ""
}

func TestD1_StalePeerTimeoutDropsSessionRightAfterTestRequest(t *testing.T) {
	l, err := net.Listen("tcp", "127.0.0.1:0")
	require.NoError(t, err)
	port := l.Addr().(*net.TCPAddr).Port
	require.NoError(t, l.Close())

	settings := NewSettings()
	settings.GlobalSettings().Set("SocketAcceptHost", "127.0.0.1")
	settings.GlobalSettings().Set("SocketAcceptPort", strconv.Itoa(port))
	ss := NewSessionSettings()
	ss.Set("BeginString", "FIX.4.2")
	ss.Set("SenderCompID", "ENGINE")
	ss.Set("TargetCompID", "CPTY")
	_, err = settings.AddSession(ss)
	require.NoError(t, err)

	app := &d1SlowApp{t0: time.Now()}
	acceptor, err := NewAcceptor(app, NewMemoryStoreFactory(), settings, NewNullLogFactory())
	require.NoError(t, err)
	require.NoError(t, acceptor.Start())
	defer acceptor.Stop()

	conn, err := net.Dial("tcp", "127.0.0.1:"+strconv.Itoa(port))
	require.NoError(t, err)
	defer conn.Close()

	send := func(msgType string, seq int, body string) {
		app.note("cpty: sends 35=%s 34=%d %s", msgType, seq, bytes.ReplaceAll([]byte(body), []byte{1}, []byte("|")))
		_, werr := conn.Write(d1Frame(msgType, seq, body))
		if werr != nil {
			app.note("cpty: write failed: %v", werr)
		}
	}

	// The counterparty: logs on with HeartBtInt=1, sends one TestRequest 100ms after the logon, and
	// answers every TestRequest of the engine 50ms after it arrives.
	var (
		mu            sync.Mutex
		testReqAt     time.Time // the engine's TestRequest arrived
		answeredAt    time.Time // our Heartbeat answer written
		connectionEnd time.Time // the engine closed the connection
	)
	seq := 1
	send("A", seq, "98=0\x01108="+strconv.Itoa(d1HeartBtInt)+"\x01")

	done := make(chan struct{})
	go func() {
		defer close(done)
		parser := newParser(bufio.NewReader(conn))
		for {
			msg, rerr := parser.ReadMessage()
			if rerr != nil {
				mu.Lock()
				connectionEnd = time.Now()
				mu.Unlock()
				app.note("cpty: connection closed by the engine (%v)", rerr)
				return
			}
			raw := msg.Bytes()
			msgType := d1Field(raw, "35")
			app.note("cpty: receives 35=%s 34=%s 112=%s", msgType, d1Field(raw, "34"), d1Field(raw, "112"))
			switch msgType {
			case "A":
				go func() {
					time.Sleep(100 * time.Millisecond)
					mu.Lock()
					seq++
					n := seq
					mu.Unlock()
					send("1", n, "112=PING\x01")
				}()
			case "1":
				mu.Lock()
				if testReqAt.IsZero() {
					testReqAt = time.Now()
				}
				mu.Unlock()
				id := d1Field(raw, "112")
				go func() {
					time.Sleep(50 * time.Millisecond)
					mu.Lock()
					seq++
					n := seq
					mu.Unlock()
					send("0", n, "112="+id+"\x01")
					mu.Lock()
					if answeredAt.IsZero() {
						answeredAt = time.Now()
					}
					mu.Unlock()
				}()
			}
		}
	}()

	select {
	case <-done:
		time.Sleep(200 * time.Millisecond) // let the counterparty's answer (50ms after the TestRequest) be attempted
	case <-time.After(12 * time.Second):
	}

	app.mu.Lock()
	trace := append([]string(nil), app.trace...)
	app.mu.Unlock()
	for _, line := range trace {
		t.Log(line)
	}

	mu.Lock()
	defer mu.Unlock()

	grace := time.Duration(float64(1.2) * float64(d1HeartBtInt) * float64(time.Second))
	if testReqAt.IsZero() {
		t.Skip("the engine sent no TestRequest in this run")
	}
	if !connectionEnd.IsZero() {
		after := connectionEnd.Sub(testReqAt)
		require.Truef(t, after >= grace-100*time.Millisecond,
			"KEEP-ALIVE VIOLATED: the engine sent a TestRequest and dropped the session %v later "+
				"(application notified by OnLogout), although the counterparty has 1.2 heartbeat intervals = %v to answer "+
				"(\"if nothing arrives for another 1.2 intervals the session is disconnected\"); the counterparty wrote its "+
				"Heartbeat(TestReqID) %v after the TestRequest - well inside that period, yet into a connection already given up "+
				"(\"any inbound message in between cancels the pending disconnect\")",
			after, grace, answeredAt.Sub(testReqAt).Round(time.Millisecond))
	}
}
