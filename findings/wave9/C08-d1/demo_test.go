package quickfix

// Demo d1: the LogonTimeout event armed for connection 1 is never cancelled; it is delivered while
// connection 2 is waiting for its Logon answer and ends connection 2 long before ITS logon timeout.
// Copy to the repository root and run:  go test -vet=off -count=1 -run TestD1StaleLogonTimeout .

import (
	"sync/atomic"
	"testing"
	"time"

	"github.com/stretchr/testify/require"

	"github.com/quickfixgo/quickfix/internal"
)

type d1App struct{ logouts atomic.Int32 }

func (a *d1App) OnCreate(SessionID)                               {}
func (a *d1App) OnLogon(SessionID)                                {}
func (a *d1App) OnLogout(SessionID)                               { a.logouts.Add(1) }
func (a *d1App) ToAdmin(*Message, SessionID)                      {}
func (a *d1App) ToApp(*Message, SessionID) error                  { return nil }
func (a *d1App) FromAdmin(*Message, SessionID) MessageRejectError { return nil }
func (a *d1App) FromApp(*Message, SessionID) MessageRejectError   { return nil }

// d1Drain reads what the session writes to a connection; closed is closed when the session ends the connection.
func d1Drain(out chan []byte) (closed chan time.Time) {
	closed = make(chan time.Time, 1)
	go func() {
		for range out {
		}
		closed <- time.Now()
	}()
	return
}

func TestD1StaleLogonTimeout(t *testing.T) {
	const logonTimeout = 1500 * time.Millisecond
	const reconnectAfter = 1000 * time.Millisecond

	store, err := NewMemoryStoreFactory().Create(SessionID{})
	require.NoError(t, err)
	app := &d1App{}
	s := &session{
		sessionID:    SessionID{BeginString: "FIX.4.2", TargetCompID: "TW", SenderCompID: "ISLD"},
		store:        store,
		application:  app,
		log:          nullLog{},
		sessionEvent: make(chan internal.Event),
		messageEvent: make(chan bool, 1),
		admin:        make(chan interface{}),
	}
	s.InitiateLogon = true
	s.HeartBtInt = 30 * time.Second
	s.MaxLatency = 120 * time.Second
	s.LogonTimeout = logonTimeout
	s.LogoutTimeout = 10 * time.Second
	go s.run()
	defer s.stop()

	// Connection 1: the Logon goes out (this arms LogonTimeout #1), the counterparty drops the connection at once.
	in1, out1 := make(chan fixIn, 1), make(chan []byte)
	closed1 := d1Drain(out1)
	require.NoError(t, s.connect(in1, out1))
	t0 := time.Now()
	close(in1)
	<-closed1

	// Connection 2, ReconnectInterval later (shorter than LogonTimeout - e.g. ReconnectInterval=1, LogonTimeout=10).
	time.Sleep(time.Until(t0.Add(reconnectAfter)))
	in2, out2 := make(chan fixIn, 1), make(chan []byte)
	closed2 := d1Drain(out2)
	require.NoError(t, s.connect(in2, out2))
	t2 := time.Now()

	// The counterparty is slow to answer. Connection 2 has LogonTimeout to complete its logon.
	var lived time.Duration
	select {
	case at := <-closed2:
		lived = at.Sub(t2)
	case <-time.After(logonTimeout + time.Second):
		lived = logonTimeout + time.Second
	}
	require.GreaterOrEqual(t, lived, logonTimeout-100*time.Millisecond,
		"a timer event of connection 1 (its LogonTimeout, armed %v before connection 2 existed) acted on connection 2: "+
			"the engine ended connection 2 after %v although its own logon timeout is %v (OnLogout calls so far: %d)",
		reconnectAfter, lived, logonTimeout, app.logouts.Load())
}
