#!/usr/bin/env python3
"""Regenerates MANIFEST.json from the list of claimed properties (kept here) so that it is always valid."""
import json,sys
props=[json.loads(l) for l in open('/verif/properties.jsonl')]
CLAIMED={
 'C01':('exploration','callback/store monitor over adversarial inbound histories on the real engine'),
 'C02':('exploration','session goroutine and 1-4 sender goroutines as controlled tasks under the seeded cooperative scheduler (cooperative mutexes by build-time instrumentation, yields at every seam of the send path and at SQL statements); the logon handshake with resets under the scheduler too; store refusing writes, disk write errors inside saves (file store); epoch-aware numbering/persist-before-send/replay-exclusion invariants, durable counter after refresh, porcupine against a sequencer'),
 'C03':('exploration','reference replay computed from the bytes the engine itself saved (store wrapper) and the independent scanner; coverage/contiguity/body-identity oracle; disk write errors (incl. short writes) inside saves with the file store'),
 'C04':('exploration','recovery model built from the stub peer\'s own actions; ResendRequest rules + end-to-end delivery'),
 'C05':('exploration','real Initiator + real Acceptor on the simulated network (driver-pumped links, one delivery per step) and simulated disk; cuts with byte-granular loss, write errors after cuts, half-open links, refused reconnects, crash/restart on process-crash and power-loss images; with and without EnableNextExpectedMsgSeqNum; end-to-end exactly-once/in-order oracle after a fault-free settle period; a send in flight across an orderly stop; frames stranded behind a session the initiator ended itself (stub counterparty, select gate): the initiator dials again'),
 'C06':('exploration','defects planted in flight by the stub peer in every logged-on state; non-delivery + reaction-for-one-of-the-defects oracle'),
 'C07':('exploration','continuity/reset oracle over reconnect histories for every reset-option combination, three stores; Logons refused by the application, Logout replies refused by the store'),
 'C08':('exploration','per-connection envelope monitor (wire recorded at write time, callbacks, close) under the adversarial workload with timers, cuts, Stop, store refusals, non-Logon first messages, slow application callbacks with a second frame waiting behind, and an application that sends from inside its inbound callbacks; a third of the runs with the choice among the ready sources of the session loop decided by the simulator (select gate): callbacks outlasting the timers while frames wait'),
 'C09':('exploration','in-flight corruption of live traffic (19 kinds, envelope repaired in half of them) in every session state; process survival, watchdog (spinning engine goroutine), recovered-panic probe and liveness probe; every corrupted frame and truncations of it also go through ParseMessage(+dictionaries) and the typed accessors directly, and damaged settings text / dictionary XML through ParseSettings / datadictionary.ParseSrc (pure functions riding along); dictionaries that load are validated against; tasks sharing one message under the cooperative scheduler (codec locks as scheduling points, a typed accessor must not hang)'),
 'C12':('exploration','same byte stream under several read schedules to the real parser (raw and through bufio) and through an engine\'s readLoop behind simnet; metamorphic + model oracle'),
 'C16':('exploration','real memory/file/SQL stores vs. a reference model, operation by operation, incl. refresh, reset, reopen, shared backing store (twin sessions differing in one id part, optional parts empty or set), on the simulated disk / sqlite3; SQL statements refused inside Refresh and Reset (an operation that reports an error changes nothing)'),
 'C17':('fault_enumeration','crash points of the interrupted store operation ENUMERATED from the simulated disk\'s op log (every disk op, every byte of small writes), process-crash and power-loss images, reopen + literal evaluation + further operations; SQL: every statement of save-and-increment failed in turn; histories are sampled'),
 'C18':('exploration','real Acceptor (and, in a quarter of the runs, real Initiator) under clock jumps over days/weeks and time zones incl. DST changes; accept/refuse, dial/no dial, logout at window end and store reset vs. an independent wall-clock calendar; directed mode putting a window edge into the hour a clock change skips or repeats'),
 'C20':('exploration','timing oracle on the real run loop with real timers on simulated time; slow Logon answers; a counterparty that stops reading (writes on the connection block); a busy application working through a burst while timers fall due, the simulator deciding which ready source the session loop serves (select gate), judged from the end of the last callback; a session held up again and again facing a live counterparty: no dead-peer disconnect earlier than 1.2 intervals after the TestRequest nor right after a handled message'),
}
extra=json.load(open('/verif/claimed.json')) if False else {}
NA={
 'C10':'pure function of the field-map call sequence: no clock, schedule, I/O or fault enters serialisation, so simulation has nothing to decide',
 'C11':'ParseMessage is a pure function of the byte string and the dictionaries: no schedule, clock or fault to simulate',
 'C13':'group write/parse/read is a pure function of template, entries and dictionary',
 'C14':'FieldValue Read/Write are pure conversions of one value',
 'C15':'Validator.Validate is a pure function of message, dictionaries and settings',
 'C19':'building a DataDictionary is a pure function of the XML text',
}
def main():
    import importlib.util
    claimed=dict(CLAIMED)
    try:
        claimed.update(json.load(open('/verif/claimed_extra.json')))
    except FileNotFoundError:
        pass
    checks=[];na=[]
    for p in props:
        i=p['id']
        if i in claimed:
            lvl,txt=claimed[i]
            checks.append({"property_id":i,"quick_cmd":"./verif check %s --tier quick"%i,"thorough_cmd":"./verif check %s --tier thorough"%i,
              "evidence_file":"/verif/evidence/%s.json"%i,"replay_cmd_template":"./verif replay {path}","engine":"sim",
              "level_claimed":{"category":lvl,"text":txt+"; seeded search over simulated runs, every violation minimised and replayed in a fresh process","design_ref":"DESIGN.md §3 "+i},
              "level_note":"trusts testing/synctest's fake clock, the in-memory transport/disk models (simnet, simos) and the harness's independent FIX codec; sampling, not enumeration"+(" except the crash points of the interrupted operation, which are enumerated" if lvl=='fault_enumeration' else ""),
              "technique":"deterministic simulation with fault injection (seeded schedule/fault search, invariant monitors, minimised replay)"})
        else:
            na.append({"property_id":i,"reason":NA.get(i,"check under construction in this session; not claimed until its check is committed")})
    m={"version":1,"setup_cmd":"./verif setup",
     "hooks":{"guard":"verif","enable":"no source hooks: `go test -c -overlay` with files generated from the working tree by sim/cmd/instrument (import shims for net/os, cooperative mutexes, select wake yields, ordered polls in front of the session loop's select (off unless a workload sets an order), an export file)","baseline_off_cmd":json.load(open('/root/.vp/BASELINE.json'))['cmd'],"source_commits":[],"add_only":True},
     "engines":[{"name":"sim","path":"/verif/sim","serves_properties":sorted(claimed),"kind_free_text":"deterministic simulator: testing/synctest bubble + simnet/simos/simsync shims + seeded chooser + minimiser/replayer"}],
     "checks":checks,"not_applicable":na,
     "notes":"exit 2 = infrastructure (build/watchdog/non-replaying/nondeterministic), never reported as VIOLATION"}
    json.dump(m,open('/verif/MANIFEST.json','w'),indent=1)
main()
