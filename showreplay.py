#!/usr/bin/env python3
import json,sys
r=json.load(open(sys.argv[1]))
print(r['fingerprint'], '|', r['detail']); print('decisions',r['decisions'], 'orig',r['original_decisions'], 'minruns',r['minimise_runs']); print(r['config']); print('\n'.join(r['trace']))
pref=tuple(sys.argv[2].split(',')) if len(sys.argv)>2 else ('wire','app','peer')
for e in r['history_tail']:
    if e['s'].startswith(pref): print(e['n'], round(e['t'],3), e['s'], e['k'], e.get('d','').replace('\x01','|')[:180])
