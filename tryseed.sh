#!/bin/bash
# usage: tryseed.sh <property> <patch.diff> [budget_s] [tier]
# applies a seeded change to /repo, runs the property's check, restores /repo. Prints the verdict.
P=$1; PATCH=$2; B=${3:-40}
cd /repo || exit 2
[ -n "$(git status --porcelain)" ] && { echo "repo not clean"; exit 2; }
git apply "$PATCH" || { echo "patch does not apply"; exit 2; }
out=$(cd /verif && timeout 1500 ./verif check $P --budget $B 2>&1)
rc=$?
git checkout -q -- .
git status --porcelain | grep -v '^??' 
echo "$out" | grep -v "^\s" | grep -v "^KNOWN" | cut -c1-500 | tail -4
echo "EXIT $rc"
