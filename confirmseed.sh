#!/bin/bash
# usage: confirmseed.sh <P> <m>   -- confirms a seeded change in a scratch worktree of /repo HEAD
P=$1; M=$2; D=${SEEDROOT:-/tmp/wt3}/$P/_seeded/$M; W=/tmp/wtc
export GOFLAGS=-mod=mod GOPROXY=off GOSUMDB=off
cd /repo && git worktree remove --force $W 2>/dev/null; git worktree add -q --detach $W HEAD || exit 2
cd $W
PATCH=$D/patch.diff; [ -f $D/patch.ported.diff ] && PATCH=$D/patch.ported.diff
git apply $PATCH || { echo "RESULT $P $M patch-does-not-apply"; exit 1; }
go build ./... || { echo "RESULT $P $M build-fails"; exit 1; }
if go test -vet=off -count=1 . ./internal/... ./store/... ./datadictionary/... ./config/... > /tmp/confirm_suite.log 2>&1; then suite=pass; else suite=FAIL; fi
rundemo() {
  rc=0
  if [ -f $D/run_demo.sh ] || [ -f $D/run.sh ]; then
     R=run_demo.sh; [ -f $D/run.sh ] && R=run.sh
     mkdir -p $W/_seeded && cp -r $D $W/_seeded/ && (cd $W && sh $W/_seeded/$M/$R) > /tmp/confirm_demo.log 2>&1 || rc=1
     rm -rf $W/_seeded
  elif [ -d $D/demo ]; then
     mkdir -p $W/_seeded/$M && cp -r $D/demo $W/_seeded/$M/ && (cd $W && go test -vet=off -count=1 ./_seeded/$M/demo/) > /tmp/confirm_demo.log 2>&1 || rc=1
     rm -rf $W/_seeded
  else
     for f in $D/*_test.go; do
        pkg=$(grep -m1 '^package ' $f | awk '{print $2}')
        case $pkg in quickfix|quickfix_test) dir=.;; internal) dir=internal;; file) dir=store/file;; sql) dir=store/sql;; *) dir=.;; esac
        cp $f $W/$dir/zz_seeded_demo_$(basename $f)
        (cd $W && go test -vet=off -count=1 -run 'Seed|C06M|C0|M1|M2' ./$dir/) > /tmp/confirm_demo.log 2>&1 || rc=1
        rm -f $W/$dir/zz_seeded_demo_*
     done
  fi
  return $rc
}
if rundemo; then with=pass; else with=FAIL; fi
git checkout -q -- . 
if rundemo; then without=pass; else without=FAIL; fi
echo "RESULT $P $M suite=$suite demo_with_change=$with demo_without_change=$without"
cd /repo && git worktree remove --force $W
